#!/usr/bin/env python3
"""Regenerate MANIFEST.json from the registry below (keeps it valid at all times)."""
import json, os
HERE = os.path.dirname(os.path.abspath(__file__))
CHECKS = json.load(open(os.path.join(HERE, 'manifest_checks.json')))
props = [json.loads(l) for l in open(os.path.join(HERE, 'properties.jsonl'))]
checks, na = [], []
for p in props:
    pid = p['id']
    c = CHECKS.get(pid)
    if c is None or c.get('not_applicable'):
        na.append(dict(property_id=pid, reason=(c or {}).get('not_applicable', 'check not built yet (see DESIGN.md section 5 build order)')))
        continue
    checks.append(dict(
        property_id=pid,
        quick_cmd=f'./check {pid} --tier quick',
        thorough_cmd=f'./check {pid} --tier thorough',
        evidence_file=f'evidence/{pid}.json',
        replay_cmd_template=f'./check {pid} --replay {{path}}',
        engine='symnb',
        level_claimed=dict(category='model_checking', text=c['text'], design_ref=c.get('design_ref', f'DESIGN.md section 2, {pid}')),
        level_note=c['note'],
        technique=c.get('technique', 'bounded symbolic execution of the real py_func code objects (operator overloading -> z3 terms), property negated and decided by z3 per path; counterexamples replayed on the compiled code'),
    ))
m = dict(
    version=1,
    setup_cmd='./setup.sh',
    hooks=dict(guard='ABACUSUTILS_VERIF', enable='no source hooks are needed: checks import /repo and execute its code objects; ABACUSUTILS_VERIF=1 is exported by ./check but read by nothing in /repo',
               baseline_off_cmd='cd /repo && /venv/bin/python -m pytest -ra -q -p no:cacheprovider --timeout=900 --continue-on-collection-errors',
               source_commits=[], add_only=True),
    engines=[dict(name='symnb', path='symnb/', serves_properties=[c['property_id'] for c in checks],
                  kind_free_text='operator-overloading symbolic executor for numba-subset Python: runs /repo\'s real code objects on z3 terms, forks on symbolic branches by re-execution, out-of-bounds/uninitialised/race monitors, replay of every counterexample on the real compiled code')],
    checks=checks,
    notes='Exit codes: 0 held within bounds; 1 VIOLATION (replayed on real code); 2 inconclusive / harness error. Known findings: known_findings.json. Design: DESIGN.md.',
    not_applicable=na,
)
json.dump(m, open(os.path.join(HERE, 'MANIFEST.json'), 'w'), indent=1)
print('checks:', [c['property_id'] for c in checks], 'n/a:', [n['property_id'] for n in na])
