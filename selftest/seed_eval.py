#!/usr/bin/env python3
"""Confirm a seeded change delivered by an independent sub-agent and run the checks against it.

usage: selftest/seed_eval.py <PROPERTY-ID> <dir with patch.diff, demo.py, notes.md> [--checks C01,C11] [--name NAME] [--notests]

Everything happens in a fresh scratch worktree of /repo's HEAD under /tmp (removed at the end);
/repo itself is never modified.  Steps: (1) demo.py on the unchanged code must exit 0; (2) apply the
patch; (3) the 30 baseline tests must still pass; (4) demo.py must now fail; (5) run the listed
checks (default: the property's own) with VERIF_REPO pointing at the patched worktree and record
exit code and VIOLATION lines.  The confirmed change is stored under /verif/seeded/<NAME>/."""
import json
import os
import shutil
import subprocess
import sys
import tempfile
import time

VERIF = os.path.dirname(os.path.dirname(os.path.abspath(__file__)))
TESTS = ['tests/test_util.py', 'tests/test_tsc.py', '-k', 'not test_multi']


def sh(cmd, cwd=None, env=None, timeout=7200):
    e = dict(os.environ)
    e.update(env or {})
    p = subprocess.run(cmd, cwd=cwd, env=e, capture_output=True, text=True, timeout=timeout)
    return p.returncode, p.stdout + p.stderr


def main():
    pid, src = sys.argv[1], os.path.abspath(sys.argv[2])
    args = sys.argv[3:]
    checks = [pid]
    name = pid
    notests = '--notests' in args
    for i, a in enumerate(args):
        if a == '--checks':
            checks = args[i + 1].split(',')
        if a == '--name':
            name = args[i + 1]
    wt = tempfile.mkdtemp(prefix='seedwt.', dir='/tmp')
    os.rmdir(wt)
    meta = dict(property=pid, name=name, confirmed=False, ran=[])
    old_meta = {}
    try:
        old_meta = json.load(open(os.path.join(VERIF, 'seeded', name, 'meta.json')))
    except Exception:
        pass
    try:
        rc, out = sh(['git', '-C', '/repo', 'worktree', 'add', '-q', '--detach', wt, 'HEAD'])
        assert rc == 0, out
        shutil.copy('/repo/abacusnbody/version.py', os.path.join(wt, 'abacusnbody', 'version.py'))
        if os.path.isdir('/repo/abacusutils.egg-info'):
            shutil.copytree('/repo/abacusutils.egg-info', os.path.join(wt, 'abacusutils.egg-info'))
        demo = os.path.join(src, 'demo.py')
        # the demo may hard-code the agent's worktree path: point it at ours
        dtext = open(demo).read()
        for old in (f'/tmp/seed4_{pid}', f'/tmp/seed3_{pid}', f'/tmp/seed2_{pid}', f'/tmp/seed_{pid}'):
            dtext = dtext.replace(old + '_out', src).replace(old, wt)
        demo2 = os.path.join(wt, '_seed_demo.py')
        open(demo2, 'w').write(dtext)
        rc0, out0 = sh(['/venv/bin/python', demo2], cwd=wt, timeout=1800)
        meta['demo_unchanged_exit'] = rc0
        meta['ran'].append(f'demo on unchanged code -> exit {rc0}')
        rc, out = sh(['git', '-C', wt, 'apply', '--whitespace=nowarn', os.path.join(src, 'patch.diff')])
        meta['patch_applies'] = rc == 0
        if rc != 0:
            meta['error'] = 'patch does not apply to /repo HEAD: ' + out[-500:]
            return meta
        if not notests:
            t = time.time()
            rc, out = sh(['/venv/bin/python', '-m', 'pytest', '-q', '-p', 'no:cacheprovider'] + TESTS, cwd=wt, timeout=3600)
            meta['tests_exit'] = rc
            meta['tests_tail'] = out.strip().splitlines()[-1] if out.strip() else ''
            meta['ran'].append(f'30 baseline tests with the change -> exit {rc} ({meta["tests_tail"]}) in {time.time() - t:.0f}s')
        if notests and 'tests_exit' in old_meta:      # baseline tests were run when the change was first confirmed
            meta['tests_exit'], meta['tests_tail'] = old_meta['tests_exit'], old_meta.get('tests_tail', '')
            meta['ran'].append(f'30 baseline tests with the change -> exit {meta["tests_exit"]} ({meta["tests_tail"]}) [from the first confirmation run]')
        rc1, out1 = sh(['/venv/bin/python', demo2], cwd=wt, timeout=1800)
        meta['demo_changed_exit'] = rc1
        meta['demo_changed_tail'] = out1.strip()[-600:]
        meta['ran'].append(f'demo with the change -> exit {rc1}')
        meta['confirmed'] = (rc0 == 0 and rc1 != 0 and (notests or meta.get('tests_exit') == 0))
        meta['check_results'] = {}
        for c in checks:
            for tier in ('quick',):
                t = time.time()
                rc, out = sh([os.path.join(VERIF, 'check'), c, '--tier', tier], cwd=VERIF, env={'VERIF_REPO': wt}, timeout=7200)
                viol = [ln for ln in out.splitlines() if ln.startswith(('VIOLATION', 'KNOWN-FINDING', 'HARNESS-ERROR', 'INCONCLUSIVE'))]
                what = [ln.strip() for ln in out.splitlines() if ln.startswith('  what:') or ln.startswith('  key:')]
                meta['check_results'][f'{c}/{tier}'] = dict(exit=rc, lines=[v[:300] for v in viol][:6], what=what[:8], wall_s=round(time.time() - t, 1))
                meta['ran'].append(f'./check {c} --tier {tier} against the patched tree -> exit {rc}')
        return meta
    finally:
        sh(['git', '-C', '/repo', 'worktree', 'remove', '--force', wt])
        shutil.rmtree(wt, ignore_errors=True)
        dst = os.path.join(VERIF, 'seeded', name)
        os.makedirs(dst, exist_ok=True)
        for f in ('patch.diff', 'demo.py', 'notes.md'):
            if os.path.exists(os.path.join(src, f)) and os.path.abspath(src) != os.path.abspath(dst):
                shutil.copy(os.path.join(src, f), os.path.join(dst, f))
        notes = os.path.join(src, 'notes.md')
        meta['needs_to_manifest'] = open(notes).read()[:1500] if os.path.exists(notes) else ''
        json.dump(meta, open(os.path.join(dst, 'meta.json'), 'w'), indent=1)
        print(json.dumps({k: v for k, v in meta.items() if k != 'needs_to_manifest'}, indent=1)[:3000])


if __name__ == '__main__':
    main()
