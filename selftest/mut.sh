#!/bin/sh
# usage: selftest/mut.sh <ID> <file-relative-to-repo> <sed-expression> [check args...]
# Applies a one-line mutation to a scratch worktree of /repo (HEAD) and runs one check against
# it (VERIF_REPO); the worktree is removed afterwards.  /repo itself is never touched.
ID="$1"; F="$2"; EXPR="$3"; shift 3
D=$(mktemp -d /tmp/mutwt.XXXXXX)
git -C /repo worktree add -q --detach "$D" HEAD || exit 2
cp /repo/abacusnbody/version.py "$D/abacusnbody/version.py" 2>/dev/null; cp -r /repo/abacusutils.egg-info "$D/" 2>/dev/null
sed -i "$EXPR" "$D/$F"
if git -C "$D" diff --quiet -- "$F"; then echo "MUTATION DID NOT APPLY"; git -C /repo worktree remove --force "$D"; exit 3; fi
git -C "$D" diff | grep '^[-+]' | grep -v '^+++\|^---'
cd "$(dirname "$0")/.."
VERIF_REPO="$D" ./check "$ID" "$@" 2>&1 | grep -v '^   ' | cut -c1-400 | tail -12
rc=$?
git -C /repo worktree remove --force "$D"
