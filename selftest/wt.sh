#!/bin/bash
# scratch worktree of /repo HEAD with a seeded patch applied:  selftest/wt.sh <seed-name>   -> /tmp/wt_<seed-name>
#                                           remove it again:   selftest/wt.sh -d <seed-name>
set -e
if [ "$1" = "-d" ]; then git -C /repo worktree remove --force /tmp/wt_$2 2>/dev/null || rm -rf /tmp/wt_$2; git -C /repo worktree prune; exit 0; fi
d=/tmp/wt_$1
git -C /repo worktree remove --force $d 2>/dev/null || true
git -C /repo worktree add -q --detach $d HEAD
cp /repo/abacusnbody/version.py $d/abacusnbody/version.py
cp -r /repo/abacusutils.egg-info $d/ 2>/dev/null || true
git -C $d apply --whitespace=nowarn /verif/seeded/$1/patch.diff
echo $d
