"""C02 -- a halo column's values do not depend on what else was requested.

The real CompaSOHaloCatalog constructor (dependency capture, per-file temporary columns,
loaders) is run many times on ONE in-memory catalogue of symbolic raw columns -- 'all',
the default set, each column alone, together with others in both orders, with its
dependencies before/after -- and the symbolic value of every returned column is required
to be identical across the loads; no load of valid columns may raise."""
import sys
import itertools
import random
import numpy as real_np
import z3
from checks import common, catlib
from checks.common import Sym, SArr, ctx, core, arrays, rebind, harness
import abacusnbody.data.compaso_halo_catalog as chc

ID = 'C02'
BOUNDS = {
    'quick': 'one superslab with 2 halos, every raw column a free symbol (int16 ratios as ints, floats as reals), BoxSize and VelZSpace_to_kms free; '
             'every valid column (84 halo_info + cleaned/progenitor columns): alone vs "all" vs the default set vs [column, integer column] vs '
             '[integer column, column] vs with its dependencies first/last, plus a seeded sample of 48 ordered pairs; cleaned on/off; '
             'subsamples off / A (concrete particle layout); convert_units on/off'
             '; also: halo light-cone catalogue (light-cone columns + kept L2com columns, all pairs of avg/interp columns); float32 stores carry opaque rounding markers',
    'thorough': 'as quick with all ordered pairs of columns within each of 6 column families and 400 sampled cross-family pairs',
}
OUTSIDE = 'the eigenvector decoder (opaque stand-in here, C18); float rounding; more than one superslab (C03); catalogue files on disk'
STUBS = ['asdf.open: in-memory tree whose raw columns are created lazily (same symbols for every load on a path)',
         '_unpack_euler16: opaque triads per raw code column', 'astropy Column stores cast to the column\'s declared dtype (environment patch)',
         'file discovery replaced by a fixed superslab list']
ASSUMPTIONS = ['floats are reals', 'BoxSize, VelZSpace_to_kms > 0', 'sqrt arguments >= 0']
MUST_COVER = {'abacusnbody.data.compaso_halo_catalog.CompaSOHaloCatalog._get_halo_fields_dependencies': 3,
              'abacusnbody.data.compaso_halo_catalog.CompaSOHaloCatalog._load_halo_field': 3,
              'abacusnbody.data.compaso_halo_catalog.CompaSOHaloCatalog._setup_fields': 22}    # passthrough / light-cone branches
FUNCS = catlib.FUNCS

USER = list(chc.user_dt.names)
PROGEN = list(chc.clean_dt_progen.names)
INDEXCOLS = {'npstartA', 'npstartB', 'npoutA', 'npoutB', 'npstartA_merge', 'npstartB_merge', 'npoutA_merge', 'npoutB_merge'}


def sources():
    return rebind.source_hash(*FUNCS)


def setup(c, cleaned, subs):
    """install one superslab of 2 halos; with subsamples the particle layout is concrete (the zipper is C01's)"""
    catlib.RC.set_global('_unpack_euler16', catlib.EulerStub())
    conc = {}
    if subs:
        conc = {'npstartA': arrays.as_sarr(real_np.array([0, 2], dtype=real_np.uint64)), 'npoutA': arrays.as_sarr(real_np.array([2, 1], dtype=real_np.uint32)),
                'npstartA_merge': arrays.as_sarr(real_np.array([0, 1], dtype=real_np.int64)), 'npoutA_merge': arrays.as_sarr(real_np.array([1, 0], dtype=real_np.uint32)),
                'N_total': arrays.as_sarr(real_np.array([5, 7], dtype=real_np.uint32))}
    files, hdr = catlib.fresh_files(c, [0], 2, cleaned, concrete={0: conc})
    # light-cone product: the single particle file is always present (the reader opens it even with subsamples off)
    files['/cat/lc_pid_rv.asdf'] = {'header': dict(hdr), 'data': {'pos': arrays.as_sarr(real_np.zeros((3, 3), dtype='f4')),
                                                                  'vel': arrays.as_sarr(real_np.zeros((3, 3), dtype='f4')),
                                                                  'pid': arrays.as_sarr(real_np.arange(3, dtype='u8'))}}
    if subs:
        files['/cat/halo_rv_A/halo_rv_A_000.asdf'] = {'header': dict(hdr), 'data': {'rvint': common.sym_array('rvA', (3, 3), 'i4', bv=True)}}
        if cleaned:
            files['/clean/cleaned_rvpid/cleaned_rvpid_000.asdf'] = {'header': dict(hdr), 'data': {'rvint_A': common.sym_array('crvA', (1, 3), 'i4', bv=True)}}
    catlib.install(files)


def load(c, fields, cleaned, subs, convert, lc=False):
    """one constructor run; returns {column: list of cells} or the exception"""
    kw = dict(fields=fields, convert_units=convert, subsamples=dict(A=True, pos=True) if subs else False)
    if lc:
        kw['halo_lc'] = True
    try:
        cat = catlib.construct('/cat', [0], cleaned, **kw)
    except (KeyError, ValueError, TypeError, IndexError, AttributeError, AssertionError) as e:
        import traceback
        tb = traceback.extract_tb(e.__traceback__)
        where = [f for f in tb if '/abacusnbody/' in f.filename]
        site = f'{where[-1].name}:{where[-1].lineno}' if where else '?'
        return dict(error=f'{type(e).__name__}: {e}', site=site, etype=type(e).__name__, func=where[-1].name if where else '?')
    out = {}
    for k in cat.halos.colnames:
        out[k] = list(real_np.asarray(cat.halos[k]).ravel())
    return out


def same_cells(a, b):
    if len(a) != len(b):
        return z3.BoolVal(False)
    cs = []
    for x, y in zip(a, b):
        if x is arrays.UNINIT or y is arrays.UNINIT:
            return z3.BoolVal(False)
        x, y = core.lift(x), core.lift(y)
        if x.e.eq(y.e):
            continue
        if x.kind == 'v' or y.kind == 'v':
            cs.append(x.as_int() == y.as_int())
        else:
            cs.append(core._b(x == y))
    return z3.And(cs) if cs else z3.BoolVal(True)


def outname(col, cleaned):
    """the name a requested column has in the returned table"""
    if cleaned and col == 'N_total':
        return 'N'
    return col


def body(cleaned, subs, convert, cols, pairs, lc=False):
    c = ctx()
    _load = globals()['load']

    def load(c, f, cl, su, co):        # every load of a light-cone body is a light-cone load
        return _load(c, f, cl, su, co, lc=lc)
    case = dict(cleaned=cleaned, subsamples=subs, convert_units=convert, lightcone=lc, columns=list(cols)[:6] + (['...'] if len(cols) > 6 else []), npairs=len(pairs))
    c.extra['case'] = case
    c.extra['keyprefix'] = 'fields:'
    # float32 stores are opaque rounding markers: a column computed from float64 temporaries in one load and from float32
    # columns in another is a different term ("unaffected by which other columns were requested" is bitwise in the real reader)
    c.extra['mark_precision'] = True
    setup(c, cleaned, subs)
    ref = load(c, 'all', cleaned, subs, convert)
    if 'error' in ref:
        c.report('violation', f'fields="all" fails: {ref["error"]} at {ref["site"]}', key=f'fields:raises:{ref["etype"]}:{ref["func"]}',
                 info=dict(request='all', error=ref['error']))
        return
    dflt = load(c, 'DEFAULT_FIELDS', cleaned, subs, convert)
    if 'error' in dflt:
        c.report('violation', f'default fields fail: {dflt["error"]} at {dflt["site"]}', key=f'fields:raises:{dflt["etype"]}:{dflt["func"]}',
                 info=dict(request='DEFAULT_FIELDS', error=dflt['error']))
        return
    nload = 2

    def check(req, got, col, what):
        nonlocal nload
        nload += 1
        info = dict(request=req if isinstance(req, str) else list(req), column=col)
        if 'error' in got:
            c.report('violation', f'loading {info["request"]} fails: {got["error"]} at {got["site"]}',
                     key=f'fields:raises:{got["etype"]}:{got["func"]}', info=dict(info, error=got['error']))
            return False
        o = outname(col, cleaned)
        if o not in got:
            c.report('violation', f'requested column {col} is missing from the result of {info["request"]}', key='fields:missing', info=info)
            return False
        if subs and o in INDEXCOLS:
            base = dflt if o in dflt else ref       # re-indexed by design when subsamples are loaded; compare like with like
        else:
            base = ref if o in ref else dflt
        if o not in base:
            return True
        return c.prove(same_cells(got[o], base[o]), what, key='fields:value', info=info)
    for col in cols:
        if subs and outname(col, cleaned) in INDEXCOLS:
            continue      # particle index columns are consumed / re-indexed by the subsample loader by design (C01)
        check([col], load(c, [col], cleaned, subs, convert), col, 'a column requested alone equals its value under fields="all"')
        other = 'N' if col != 'N' else 'id'
        check([col, other], load(c, [col, other], cleaned, subs, convert), col, 'a column equals its "all" value when an integer column is requested after it')
        check([other, col], load(c, [other, col], cleaned, subs, convert), col, 'a column equals its "all" value when an integer column is requested before it')
        o = outname(col, cleaned)
        if o in dflt:
            c.prove(same_cells(dflt[o], ref[o]) if o in ref else z3.BoolVal(True), 'default-set value equals the "all" value', key='fields:value',
                    info=dict(request='DEFAULT_FIELDS', column=col))
    for a, b in pairs:
        if subs and (a in INDEXCOLS or b in INDEXCOLS):
            continue
        got = load(c, [a, b], cleaned, subs, convert)
        check([a, b], got, a, 'first column of a pair equals its "all" value')
        if 'error' not in got:
            check([a, b], got, b, 'second column of a pair equals its "all" value')
    c.extra['sample'] = dict(case, loads=nload)


def valid_columns(cleaned):
    cols = list(USER)
    if cleaned:
        cols = [x for x in cols if x != 'N'] + [x for x in PROGEN]
    return cols


def families():
    fam = {}
    for n in USER:
        k = ('sigmav' if n.startswith('sigmav') and 'eigen' not in n else 'eig' if 'eigenvecs' in n else 'r' if n[0] == 'r' else
             'sigmarn' if n.startswith(('sigmar', 'sigman')) else 'int' if chc.user_dt[n].kind in 'iu' else 'other')
        fam.setdefault(k, []).append(n)
    return fam


def lc_columns():
    return list(chc.halo_lc_dt.names) + [n for n in USER if 'L2' in n and n not in chc.halo_lc_dt.names]


def items(tier, seed):
    out = []
    rng = random.Random(seed)
    # halo light-cone catalogues: the light-cone columns and the L2com columns they keep
    lcc = lc_columns()
    for k in range(0, len(lcc), 12):
        out.append(dict(name=f'lightcone/cols{k:03d}', cleaned=False, subs=False, convert=True, cols=lcc[k:k + 12], pairs=[], lc=True))
    lcn = list(chc.halo_lc_dt.names)
    lpairs = [(a, b) for a in lcn for b in lcn if a != b and ('interp' in a or 'avg' in a) and ('interp' in b or 'avg' in b)]
    lpairs += [tuple(rng.sample(lcc, 2)) for _ in range(12 if tier == 'quick' else 100)]
    for k in range(0, len(lpairs), 12):
        out.append(dict(name=f'lightcone/pairs{k:03d}', cleaned=False, subs=False, convert=True, cols=[], pairs=lpairs[k:k + 12], lc=True))
    for cleaned in (False, True):
        for subs in (False, True):
            for convert in (True, False):
                if not convert and (subs or cleaned):
                    continue
                cols = valid_columns(cleaned)
                chunk = 12
                for k in range(0, len(cols), chunk):
                    out.append(dict(name=f'cleaned={int(cleaned)}/subs={int(subs)}/units={int(convert)}/cols{k:03d}', cleaned=cleaned, subs=subs,
                                    convert=convert, cols=cols[k:k + chunk], pairs=[]))
                # pairs
                npairs = 48 if tier == 'quick' else 400
                pr = [tuple(rng.sample(cols, 2)) for _ in range(npairs // (4 if (subs or cleaned) else 1))]
                # always include the pairs whose second member is an integer column after a derived one
                pr += [('sigmavMid_com', 'N'), ('N', 'sigmavMid_L2com'), ('sigmavMid_com', 'sigmavMaj_com'), ('r25_com', 'r100_com'), ('sigmar_com', 'id')]
                if cleaned:
                    pr = [(a if a != 'N' else 'N_total', b if b != 'N' else 'N_total') for a, b in pr]
                for k in range(0, len(pr), 10):
                    out.append(dict(name=f'cleaned={int(cleaned)}/subs={int(subs)}/units={int(convert)}/pairs{k:03d}', cleaned=cleaned, subs=subs,
                                    convert=convert, cols=[], pairs=pr[k:k + 10]))
                if tier == 'thorough' and not subs:
                    for fk, fn in families().items():
                        fpairs = [(a, b) for a in fn for b in fn if a != b]
                        if cleaned:
                            fpairs = [(a, b) for a, b in fpairs if 'N' not in (a, b)]
                        for k in range(0, len(fpairs), 30):
                            out.append(dict(name=f'cleaned={int(cleaned)}/subs=0/units=1/family-{fk}-{k:04d}', cleaned=cleaned, subs=False, convert=True,
                                            cols=[], pairs=fpairs[k:k + 30]))
    return out


def run(item):
    return common.run_paths(lambda: body(item['cleaned'], item['subs'], item['convert'], item['cols'], [tuple(p) for p in item['pairs']],
                                         lc=item.get('lc', False)),
                            cov_funcs=FUNCS, max_paths=2000)[0]


def finding_key(e):
    return e['key']


def validate(tier):
    return catlib.validate_reader()


def replay(e, path):
    return catlib.replay_reader(e, path, 'C02')


if __name__ == '__main__':
    sys.exit(harness.main(__import__('checks.c02', fromlist=['x'])))
