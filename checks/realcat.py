"""Write a REAL on-disk CompaSO halo catalogue (uncompressed ASDF files in the AbacusSummit
directory layout) from a solver model, for replays and per-run validation.  No symbolic-engine
imports: this module only uses numpy / asdf and the real abacusnbody package."""
import os
import sys
import types
from fractions import Fraction

import numpy as np


def _fake_modules():
    for n in ['blosc', 'parallel_numpy_rng', 'Corrfunc', 'Corrfunc.theory']:
        try:
            __import__(n)
        except Exception:
            sys.modules[n] = types.ModuleType(n)
    b = sys.modules['blosc']
    if not hasattr(b, 'set_nthreads'):
        b.set_nthreads = lambda n: None
        b.SHUFFLE, b.BITSHUFFLE, b.NOSHUFFLE = 1, 2, 0


_fake_modules()
import asdf  # noqa: E402
import abacusnbody.data.compaso_halo_catalog as chc  # noqa: E402


def fl(v):
    if isinstance(v, bool):
        return float(v)
    return float(Fraction(v))


def raw_names(cleaned=True):
    """raw halo_info / cleaned columns needed for every user column, from the package's own dependency capture"""
    cat = chc.CompaSOHaloCatalog.__new__(chc.CompaSOHaloCatalog)
    cat.convert_units = True
    cat.header = {'BoxSize': 1.0, 'VelZSpace_to_kms': 1.0}
    cat._setup_halo_field_loaders()
    fields = list(chc.user_dt.names) + list(chc.clean_dt_progen.names)
    raw, _, _ = cat._get_halo_fields_dependencies(fields)
    return sorted(raw)


def raw_spec(name):
    if name.endswith('_i16'):
        base = name[:-4]
        return np.dtype('i2'), ((3,) if base.startswith(('sigmar_', 'sigman_')) else ())
    if name.endswith('_u16'):
        return np.dtype('u2'), ()
    for dt in (chc.user_dt, chc.clean_dt_progen, chc.halo_lc_dt):
        if name in dt.names:
            d = dt[name]
            return (d.subdtype[0], d.subdtype[1]) if d.subdtype else (d, ())
    raise KeyError(name)


def column(prefix, name, n, model, nprev=2, seed=0):
    dt, trail = raw_spec(name)
    if 'mainprog' in name and name not in ('v_L2com_mainprog', 'haloindex_mainprog'):
        trail = (nprev,)
    a = np.zeros((n,) + tuple(trail), dtype=dt)
    rng = np.random.default_rng(abs(hash((prefix, name))) % (2 ** 31) + seed)
    for idx in np.ndindex(*a.shape):
        key = f'{prefix}.{name}[{",".join(map(str, idx))}]'
        if key in model:
            v = fl(model[key])
            if dt.kind in 'iu':
                info = np.iinfo(dt)
                v = int(min(max(round(v), info.min), info.max))
            a[idx] = v
        else:
            if name.endswith('_u16'):
                a[idx] = int(rng.integers(0, 65340))
            elif dt.kind in 'iu':
                a[idx] = int(rng.integers(1, 2000))
            else:
                a[idx] = float(rng.uniform(0.05, 0.9))
    return a


def write_catalog(root, model, slabs=(0,), nh=2, cleaned=True, subsA=None, nprev=2, concrete=None, box=None, velz=None):
    """Returns the catalogue directory to hand to CompaSOHaloCatalog.  ``concrete``: {slab: {raw column: array}}
    overrides; ``subsA``: {slab: (rvint array, cleaned rvint array)} particle files for subsample A."""
    box = fl(model.get('BoxSize', 2000)) if box is None else box
    velz = fl(model.get('VelZSpace_to_kms', 1234)) if velz is None else velz
    hdr = {'BoxSize': box, 'VelZSpace_to_kms': velz, 'SimName': 'sim', 'Redshift': 0.5, 'ppd': 8.0,
           'TimeSliceRedshiftsPrev': [0.1 * k for k in range(nprev)]}
    gdir = os.path.join(root, 'sim', 'halos', 'z0.500')
    os.makedirs(os.path.join(gdir, 'halo_info'), exist_ok=True)
    cdir = os.path.join(root, 'cleaning', 'sim', 'z0.500')
    names = raw_names()
    for s in slabs:
        n = nh[s] if isinstance(nh, dict) else nh
        conc = (concrete or {}).get(s, {})
        data, cdata = {}, {}
        for nm in names:
            tgt = cdata if nm in chc.clean_dt_progen.names else data
            tgt[nm] = np.asarray(conc[nm]) if nm in conc else column(f'c{s}' if tgt is cdata else f's{s}', nm, n, model, nprev)
        for nm in conc:
            if nm not in data and nm not in cdata:
                (cdata if nm in chc.clean_dt_progen.names else data)[nm] = np.asarray(conc[nm])
        asdf.AsdfFile({'header': dict(hdr), 'data': data}).write_to(os.path.join(gdir, 'halo_info', f'halo_info_{s:03d}.asdf'))
        if cleaned:
            os.makedirs(os.path.join(cdir, 'cleaned_halo_info'), exist_ok=True)
            os.makedirs(os.path.join(cdir, 'cleaned_rvpid'), exist_ok=True)
            asdf.AsdfFile({'header': dict(hdr), 'data': cdata}).write_to(os.path.join(cdir, 'cleaned_halo_info', f'cleaned_halo_info_{s:03d}.asdf'))
        if subsA and s in subsA:
            for AB, (rv, crv, pid, cpid) in subsA[s].items():
                for kind, arr, carr, col in (('rv', rv, crv, 'rvint'), ('pid', pid, cpid, 'packedpid')):
                    if arr is None:
                        continue
                    os.makedirs(os.path.join(gdir, f'halo_{kind}_{AB}'), exist_ok=True)
                    asdf.AsdfFile({'header': dict(hdr), 'data': {col: arr}}).write_to(os.path.join(gdir, f'halo_{kind}_{AB}', f'halo_{kind}_{AB}_{s:03d}.asdf'))
            if cleaned:
                tree = {}
                for AB, (rv, crv, pid, cpid) in subsA[s].items():
                    if crv is not None:
                        tree[f'rvint_{AB}'] = crv
                    if cpid is not None:
                        tree[f'packedpid_{AB}'] = cpid
                asdf.AsdfFile({'header': dict(hdr), 'data': tree}).write_to(os.path.join(cdir, 'cleaned_rvpid', f'cleaned_rvpid_{s:03d}.asdf'))
    return gdir


def write_lc_catalog(root, model, n=2, nprev=2, concrete=None, box=None, velz=None):
    """A halo LIGHT-CONE catalogue (single lc_halo_info.asdf holding the L2com halo_info columns plus the
    halo_lc_dt columns); returns the directory to hand to CompaSOHaloCatalog(halo_lc=True)."""
    box = fl(model.get('BoxSize', 2000)) if box is None else box
    velz = fl(model.get('VelZSpace_to_kms', 1234)) if velz is None else velz
    hdr = {'BoxSize': box, 'VelZSpace_to_kms': velz, 'SimName': 'sim', 'Redshift': 0.5, 'ppd': 8.0,
           'TimeSliceRedshiftsPrev': [0.1 * k for k in range(nprev)]}
    gdir = os.path.join(root, 'halo_light_cones', 'sim', 'z0.500')
    os.makedirs(gdir, exist_ok=True)
    data = {}
    for nm in sorted(set(raw_names()) | set(chc.halo_lc_dt.names)):
        if nm in chc.clean_dt_progen.names:
            continue
        data[nm] = np.asarray(concrete[nm]) if concrete and nm in concrete else column('s0', nm, n, model, nprev)
    asdf.AsdfFile({'header': dict(hdr), 'data': data}).write_to(os.path.join(gdir, 'lc_halo_info.asdf'))
    # the light-cone product always ships its single particle file; the reader opens it even with subsamples off
    part = {'pos': np.zeros((3, 3), dtype=np.float32), 'vel': np.zeros((3, 3), dtype=np.float32), 'pid': np.arange(3, dtype=np.uint64)}
    asdf.AsdfFile({'header': dict(hdr), 'data': part}).write_to(os.path.join(gdir, 'lc_pid_rv.asdf'))
    return gdir
