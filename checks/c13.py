"""C13 -- the power-spectrum estimate has the symmetries of the estimator.

calc_power contains a compiled FFT and forks (n+1)^3 ways per particle per painted field, so the
property is decided as a conjunction of solver-checked lemmas over the real kernels plus a wiring
run of the real calc_power / get_field_fft / get_interlaced_field_fft / get_field /
calc_pk_from_deltak with opaque painters and an opaque rfftn.  The FFT's contract (linearity;
rolling a real field by whole cells multiplies mode m by a unit phase u_m that is the same for
every field rolled by the same cells) is the one stated assumption."""
import sys
import types
import cmath
import numpy as real_np
import z3
from checks import common
common.fake_modules()
from checks.common import Sym, SArr, ctx, core, arrays, rebind, harness
from symnb import npshim
import abacusnbody.analysis.power_spectrum as ps

ID = 'C13'
BOUNDS = {
    'quick': 'lemmas on meshes n1d in {2,3,4} with free complex entries: get_raw_power (cross = auto, pointwise), shift_field_fft (pointwise, '
             'interlacing phase exp(i d/2 (kx+ky+kz)) with fftfreq frequencies, odd and even n1d), normalize_field and _normalize (pointwise affine), '
             'invariance of |delta_k|^2 under a common unit phase per mode; wiring of calc_power for paste in {TSC,CIC} x compensated x interlaced x '
             '{auto, same particles as second field, different second field} x poles on nmesh=2 with 3 symbolic particles'
             '; also: compensated cross=auto wiring also at nmesh=3 (single-thread binning)',
    'thorough': 'lemmas additionally on n1d = 5, 6; wiring additionally on nmesh = 3',
}
OUTSIDE = 'the FFT itself (contract assumed, see above); painting: additivity over particles, whole-cell roll and periodic wrap are C06, thread-count ' \
          'independence of the paint is C07/C17, of the binning C08 (those checks are this property\'s other conjuncts); numeric values of the ' \
          'compensation window (only its position in the formula is checked); float rounding'
STUBS = ['tsc_parallel / cic_serial inside get_field: opaque fields tagged with (particles, weights, offset)', 'scipy.fft.rfftn: opaque complex mesh per input field',
         'scipy.fft.fftfreq: real values']
ASSUMPTIONS = ['FFT contract: linear; a roll by whole cells multiplies mode m by a unit phase common to all fields rolled alike', 'floats are reals']
MUST_COVER = {'abacusnbody.analysis.power_spectrum.get_raw_power': 0, 'abacusnbody.analysis.power_spectrum.shift_field_fft': 0,
              'abacusnbody.analysis.power_spectrum.get_interlaced_field_fft': 2, 'abacusnbody.analysis.power_spectrum.get_field_fft': 2,
              'abacusnbody.analysis.power_spectrum.get_field': 1, 'abacusnbody.analysis.power_spectrum.calc_pk_from_deltak': 0}
FUNCS = [ps.get_raw_power, ps.shift_field_fft, ps.normalize_field, ps._normalize, ps.get_field, ps.get_interlaced_field_fft, ps.get_field_fft,
         ps.calc_pk_from_deltak, ps.calc_power, ps.get_W_compensated, ps.get_k_mu_edges]

RP = rebind.Rebound(ps)


def sources():
    return rebind.source_hash(*FUNCS)


def cmesh(c, name, shape):
    a = SArr(shape, 'c8', fill=None, name=name)
    for idx in real_np.ndindex(*shape):
        nm = ','.join(map(str, idx))
        real_np.ndarray.__setitem__(a, idx, core.Cplx(Sym(c.input(f'{name}.re[{nm}]', z3.RealSort())), Sym(c.input(f'{name}.im[{nm}]', z3.RealSort()))))
    return a


def ceq(a, b):
    a, b = core.Cplx.of(a), core.Cplx.of(b)
    return z3.And(core._b(core.lift(a.re) == core.lift(b.re)), core._b(core.lift(a.im) == core.lift(b.im)))


def body_raw(n1d):
    c = ctx()
    c.extra['case'] = dict(kind='raw_power', n1d=n1d)
    c.extra['keyprefix'] = 'raw:'
    c.extra['sample'] = c.extra['case']
    kz = n1d // 2 + 1
    f = cmesh(c, 'f', (n1d, n1d, kz))
    g = cmesh(c, 'g', (n1d, n1d, kz))
    auto = RP.get_raw_power(f)
    cross_same = RP.get_raw_power(f, f)
    cross = RP.get_raw_power(f, g)
    conds_a, conds_c = [], []
    for idx in real_np.ndindex(n1d, n1d, kz):
        fv, gv = common.cell(f, *idx), common.cell(g, *idx)
        mod2 = fv.re * fv.re + fv.im * fv.im
        a = common.cell(auto, *idx)
        a = core.lift(a.re if isinstance(a, core.Cplx) else a)
        conds_a.append(core._b(a == mod2))
        cs = common.cell(cross_same, *idx)
        conds_a.append(core._b(core.lift(cs.re if isinstance(cs, core.Cplx) else cs) == mod2))
        cr = common.cell(cross, *idx)
        conds_c.append(core._b(core.lift(cr.re if isinstance(cr, core.Cplx) else cr) == fv.re * gv.re + fv.im * gv.im))
    c.prove(z3.And(conds_a), 'raw power of a field = |f|^2 mode by mode; passing the same field as second field gives the same (cross = auto)', key='raw:auto')
    c.prove(z3.And(conds_c), 'cross power = Re(conj(f) g) mode by mode', key='raw:cross')


def body_shift(n1d):
    c = ctx()
    c.extra['case'] = dict(kind='shift', n1d=n1d)
    c.extra['keyprefix'] = 'shift:'
    c.extra['sample'] = c.extra['case']
    c.log_access = True
    rebind.NB.reset(2)
    kz = n1d // 2 + 1
    L = 2.0 * real_np.pi
    d = L / n1d
    a0 = cmesh(c, 'a', (n1d, n1d, kz))
    b0 = cmesh(c, 'b', (n1d, n1d, kz))
    a = a0.copy()
    RP.shift_field_fft(a, b0, n1d, L, d)
    fr = [int(v) for v in real_np.fft.fftfreq(n1d, 1.0 / n1d)]
    norm = 0.5 / n1d ** 3
    ok = True
    for (i, j, k) in real_np.ndindex(n1d, n1d, kz):
        # half-cell shift phase with the mesh's own (fftfreq) frequencies; the Nyquist sign does not matter for the
        # power, but the magnitude does: use the real frequencies
        ph = cmath.exp(1j * 0.5 * d * (fr[i] + fr[j] + k))
        want = (common.cell(a0, i, j, k) + common.cell(b0, i, j, k) * ph) * norm
        got = common.cell(a, i, j, k)
        if n1d % 2 == 0 and (i == n1d // 2 or j == n1d // 2):
            # Nyquist rows: +n/2 and -n/2 are the same mode; accept either sign convention for the phase
            ph2 = cmath.exp(1j * 0.5 * d * ((fr[i] if i != n1d // 2 else -fr[i]) + (fr[j] if j != n1d // 2 else -fr[j]) + k))
            alts = [ceq(got, want)]
            for p_ in (cmath.exp(1j * 0.5 * d * ((-fr[i] if i == n1d // 2 else fr[i]) + fr[j] + k)),
                       cmath.exp(1j * 0.5 * d * (fr[i] + (-fr[j] if j == n1d // 2 else fr[j]) + k)), ph2):
                alts.append(ceq(got, (common.cell(a0, i, j, k) + common.cell(b0, i, j, k) * p_) * norm))
            ok = c.prove(z3.Or(alts), 'interlacing: mode m of the result = (f_m + g_m e^{i k_m.d/2}) / (2 n^3), from mode m of the inputs only', key='shift:formula') and ok
        else:
            ok = c.prove(ceq(got, want), 'interlacing: mode m of the result = (f_m + g_m e^{i k_m.d/2}) / (2 n^3), from mode m of the inputs only', key='shift:formula') and ok
    # a common unit phase per mode on both inputs leaves |result|^2 unchanged (roll of both painted fields by whole cells)
    tr, ti = c.input('t.re', z3.RealSort()), c.input('t.im', z3.RealSort())
    c.add(tr * tr + ti * ti == 1)
    x, y, p = core.Cplx(Sym(c.input('x.re', z3.RealSort())), Sym(c.input('x.im', z3.RealSort()))), core.Cplx(Sym(c.input('y.re', z3.RealSort())), Sym(c.input('y.im', z3.RealSort()))), core.Cplx(Sym(c.input('p.re', z3.RealSort())), Sym(c.input('p.im', z3.RealSort())))
    t = core.Cplx(Sym(tr), Sym(ti))
    r1 = x + y * p
    r2 = x * t + (y * t) * p
    m1 = core.lift(r1.re * r1.re + r1.im * r1.im).as_real()
    m2 = core.lift(r2.re * r2.re + r2.im * r2.im).as_real()
    c.prove(m1 == m2, '|f t + g t p|^2 = |f + g p|^2 for a unit phase t: whole-cell translations do not change the interlaced power', key='shift:phase')


def body_norm(n1d):
    c = ctx()
    c.extra['case'] = dict(kind='normalize', n1d=n1d)
    c.extra['keyprefix'] = 'norm:'
    c.extra['sample'] = c.extra['case']
    c.log_access = True
    rebind.NB.reset(2)
    f0 = common.sym_array('field', (n1d, n1d, n1d), 'f4')
    N = Sym(c.input('tot', z3.RealSort()))
    c.assume(N.e > 0)
    for inplace in (True, False):
        f = f0.copy()
        out = RP.normalize_field(f, tot_weight=N, inplace=inplace, nthread=2)
        conds = [core._b(core.lift(common.cell(out, *idx)) == common.cell(f0, *idx) * (n1d ** 3) / N - 1.0) for idx in real_np.ndindex(n1d, n1d, n1d)]
        c.prove(z3.And(conds), 'overdensity = field x (cells / total weight) - 1, cell by cell', key='norm:field')
    kz = n1d // 2 + 1
    g0 = cmesh(c, 'g', (n1d, n1d, kz))
    a = Sym(c.input('a', z3.RealSort()))
    g = g0.copy()
    RP._normalize(g, a, nthread=2)
    c.prove(z3.And([ceq(common.cell(g, *idx), common.cell(g0, *idx) * a) for idx in real_np.ndindex(n1d, n1d, kz)]), '_normalize scales every mode by the same factor', key='norm:scale')


class Opaque:
    """provenance-carrying stand-ins for the wiring run"""
    painted = []
    ffts = {}


def body_wiring(paste, compensated, interlaced, second, poles, nmesh):
    c = ctx()
    case = dict(kind='wiring', paste=paste, compensated=compensated, interlaced=interlaced, second=second, poles=list(poles), nmesh=nmesh)
    c.extra['case'] = case
    c.extra['keyprefix'] = 'wiring:'
    c.extra['sample'] = case
    rebind.NB.reset(64)
    # thread-independence of the binning is C08's subject; from nmesh=3 on the per-thread accumulators' thread-id case
    # splits would dominate the cross = auto identity, so those meshes are binned by one thread
    NT = 2 if nmesh <= 2 else 1
    painted = []
    ffts = []

    # Opaque painters / FFT: every output cell is an uninterpreted FUNCTION of the contents handed in (all position cells, all
    # weights, offset, box / all field cells).  Equal inputs give equal outputs by congruence, so "same particles as second
    # field" needs no bookkeeping -- and an input array that was modified behind the caller's back gives different outputs.
    def reals(a):
        return [core.lift(x).as_real() for x in common.cells(a)] if a is not None else []

    def uf(name, args):
        f = z3.Function(name, *([z3.RealSort()] * len(args)), z3.RealSort())
        return Sym(f(*args))

    def paint_tsc(pos, field, Lbox, weights=None, nthread=-1, offset=0.0, **kw):
        painted.append(dict(kind='TSC', pos=pos, w=weights, offset=offset, box=Lbox))
        args = reals(pos) + reals(weights) + [core.lift(offset).as_real(), core.lift(Lbox).as_real()]
        for idx in real_np.ndindex(*field.shape):
            real_np.ndarray.__setitem__(field, idx, uf(f'paintTSC{"w" if weights is not None else "u"}[{",".join(map(str, idx))}]', args))
        return field

    def paint_cic(pos, field, Lbox, weights=None):
        painted.append(dict(kind='CIC', pos=pos, w=weights, offset=None, box=Lbox))
        args = reals(pos) + reals(weights) + [core.lift(Lbox).as_real()]
        for idx in real_np.ndindex(*field.shape):
            real_np.ndarray.__setitem__(field, idx, uf(f'paintCIC{"w" if weights is not None else "u"}[{",".join(map(str, idx))}]', args))

    def rfftn(field, workers=None, **kw):
        n = field.shape[0]
        args = reals(field)
        out = SArr((n, n, n // 2 + 1), 'c8', fill=None, name=f'fft{len(ffts)}')
        for idx in real_np.ndindex(n, n, n // 2 + 1):
            nm = ','.join(map(str, idx))
            real_np.ndarray.__setitem__(out, idx, core.Cplx(uf(f'fft.re[{nm}]', args), uf(f'fft.im[{nm}]', args)))
        ffts.append(dict(src=[x for x in common.cells(field)], out=out))
        return out

    def fftfreq(n, d=1.0):
        return arrays.as_sarr(real_np.fft.fftfreq(n, d=d))
    R = rebind.Rebound(ps, overrides=dict(tsc_parallel=paint_tsc, cic_serial=paint_cic, rfftn=rfftn, fftfreq=fftfreq))
    Np = 3
    pos = common.sym_array('pos', (Np, 3), 'f4')
    w = common.sym_array('w', (Np,), 'f4')
    pos0, w0 = real_np.ndarray.view(pos, real_np.ndarray).copy(), real_np.ndarray.view(w, real_np.ndarray).copy()
    kw = {}
    if second == 'same':
        kw = dict(pos2=pos, w2=w)
    elif second == 'other':
        kw = dict(pos2=common.sym_array('pos2', (Np, 3), 'f4'), w2=None)
    Lbox = 10.0
    import warnings
    with warnings.catch_warnings():
        warnings.simplefilter('ignore')
        res = R.calc_power(pos, Lbox, kbins=2, mubins=None, paste=paste, nmesh=nmesh, compensated=compensated, interlaced=interlaced, w=w,
                           poles=list(poles) or None, nthread=NT, dtype=arrays.T('f4'), **kw)
    # (1) painting wiring: every paint of the first field uses the same particles and weights, offsets {0} or {0, d/2}
    first = [p for p in painted if p['pos'] is pos or (paste == 'CIC' and interlaced)]
    nfields = 1 if second is None else 2
    per = 2 if interlaced else 1
    ok = len(painted) == nfields * per
    offs = []
    for p in painted[:per]:
        offs.append(p['offset'] if p['kind'] == 'TSC' else None)
        if p['kind'] == 'TSC':
            ok = ok and p['pos'] is pos and p['w'] is w
    if paste == 'TSC':
        ok = ok and sorted(float(o) for o in offs) == ([0.0, 0.5 * Lbox / nmesh] if interlaced else [0.0])
    # recorded in the evidence sample only: the property's symmetries do not by themselves require the two interlaced paints to share
    # weights/offsets, so this is deliberately NOT an obligation (it would demand more than the property states)
    c.extra['sample'] = dict(case, paints=len(painted), offsets=[str(o) for o in offs], same_particles_and_weights=ok)
    # (2) table shape / N_mode / k ranges contain no particle-dependent symbol
    def names_in(e, acc):
        if z3.is_const(e) and e.decl().kind() == z3.Z3_OP_UNINTERPRETED:
            acc.add(e.decl().name())
        for ch in e.children():
            names_in(ch, acc)

    def free_of_symbols(col):
        """no symbol that stems from the particles (positions, weights, painted fields, their transforms)"""
        acc = set()
        for v in real_np.asarray(res[col]).ravel():
            if isinstance(v, core.Cplx):
                for part in (v.re, v.im):
                    if isinstance(part, Sym):
                        names_in(part.e, acc)
            elif isinstance(v, Sym):
                names_in(v.e, acc)
        return not any(nm.startswith(('pos', 'w[', 'paint', 'fft')) for nm in acc)
    cols_fixed = [k for k in ('k_min', 'k_max', 'k_mid', 'N_mode') if k in res.colnames] + (['N_mode_poles'] if 'N_mode_poles' in res.colnames else [])
    c.prove(z3.BoolVal(all(free_of_symbols(k) for k in cols_fixed) and len(res) == 2),
            'N_mode, the k ranges and the table shape do not depend on the particles', key='wiring:shape', info=dict(columns=res.colnames))
    # (3) cross with the same particles == auto: compare with an auto run on the same opaque paints
    if second == 'same':
        del painted[:], ffts[:]
        with warnings.catch_warnings():
            warnings.simplefilter('ignore')
            # the reference run gets fresh arrays holding the ORIGINAL cells (a first call that shifted `pos` in place must not
            # shift the reference as well)
            auto = R.calc_power(arrays.as_sarr(pos0.copy(), 'f4'), Lbox, kbins=2, mubins=None, paste=paste, nmesh=nmesh, compensated=compensated, interlaced=interlaced,
                                w=arrays.as_sarr(w0.copy(), 'f4'), poles=list(poles) or None, nthread=NT, dtype=arrays.T('f4'))
        conds = []
        for col in ('power',) + (('poles',) if 'poles' in res.colnames else ()):
            for x, y in zip(real_np.asarray(res[col]).ravel(), real_np.asarray(auto[col]).ravel()):
                x, y = core.lift(x), core.lift(y)
                conds.append(z3.BoolVal(True) if x.e.eq(y.e) else core._b(x == y))
        for cd in conds:
            # polynomial identity in the opaque FFT symbols: first by normalisation (sum of monomials), the solver only if that leaves a residue
            if z3.is_eq(cd):
                d = z3.simplify(cd.arg(0) - cd.arg(1), som=True, arith_lhs=True, flat=True)
                if z3.is_rational_value(d) and d.numerator_as_long() == 0:
                    c.stats.proved += 1
                    c.stats.queries += 1
                    continue
            c.prove(cd, 'passing the same particles as the second field gives the auto power (cross = auto)', key='wiring:cross-auto')


def items(tier, seed):
    out = []
    ns = (2, 3, 4) if tier == 'quick' else (2, 3, 4, 5, 6)
    for n in ns:
        out.append(dict(name=f'raw_power/n1d={n}', kind='raw', n1d=n))
        out.append(dict(name=f'shift_field_fft/n1d={n}', kind='shift', n1d=n))
        if n <= 4:
            out.append(dict(name=f'normalize/n1d={n}', kind='norm', n1d=n))
    for nm in (2, 3):
        for paste in ('TSC', 'CIC'):
            for comp in (True, False):
                for inter in (True, False):
                    for second in (None, 'same', 'other'):
                        if second == 'other' and not (comp and inter):
                            continue
                        if nm == 3 and tier == 'quick' and not (comp and second == 'same'):
                            continue        # nmesh=2 has window 1 on every binned mode: the compensation only shows from nmesh=3
                        poles = (0, 2) if (comp != inter) else ()
                        out.append(dict(name=f'wiring/nmesh={nm}/{paste}/comp={int(comp)}/inter={int(inter)}/second={second}/poles={len(poles)}', kind='wiring',
                                        paste=paste, comp=comp, inter=inter, second=second, poles=poles, nmesh=nm))
    return out


def run(item):
    k = item['kind']
    if k == 'raw':
        return common.run_paths(lambda: body_raw(item['n1d']), cov_funcs=FUNCS)[0]
    if k == 'shift':
        return common.run_paths(lambda: body_shift(item['n1d']), cov_funcs=FUNCS)[0]
    if k == 'norm':
        return common.run_paths(lambda: body_norm(item['n1d']), cov_funcs=FUNCS)[0]
    return common.run_paths(lambda: body_wiring(item['paste'], item['comp'], item['inter'], item['second'], tuple(item['poles']), item['nmesh']),
                            cov_funcs=FUNCS, max_paths=5000)[0]


def validate(tier):
    """engine (concrete complex meshes) vs compiled shift_field_fft / get_raw_power"""
    n = 0
    rng = real_np.random.default_rng(8)
    for n1d in (3, 4):
        kz = n1d // 2 + 1
        a = (rng.random((n1d, n1d, kz)) + 1j * rng.random((n1d, n1d, kz))).astype(real_np.complex128)
        b = (rng.random((n1d, n1d, kz)) + 1j * rng.random((n1d, n1d, kz))).astype(real_np.complex128)
        L = 2 * real_np.pi
        ref = a.copy()
        ps.shift_field_fft(ref, b, n1d, L, L / n1d, dtype=real_np.float64)

        def body():
            rebind.NB.reset(1)
            sa, sb = arrays.as_sarr(a.copy(), 'c16'), arrays.as_sarr(b, 'c16')
            RP.shift_field_fft(sa, sb, n1d, L, L / n1d, dtype=arrays.T('f8'))
            return [complex(float(x.re), float(x.im)) for x in common.cells(sa)]
        res = core.explore(body)
        assert len(res) == 1 and res[0].exc is None, res[0].exc
        assert real_np.allclose(res[0].ret, ref.ravel(), rtol=1e-9), n1d
        n += 1
    return n


def replay(e, path):
    i = e['info'].get('case', {})
    m = e.get('model', {})
    body_ = f'''
import abacusnbody.analysis.power_spectrum as ps
case = {i!r}
bad = []
rng = np.random.default_rng(5)
kind = case.get('kind')
if kind in ('shift', 'raw_power', 'normalize'):
    n1d = case['n1d']; kz = n1d // 2 + 1; L = 2 * np.pi; d = L / n1d
    a = rng.random((n1d, n1d, kz)) + 1j * rng.random((n1d, n1d, kz)); b = rng.random((n1d, n1d, kz)) + 1j * rng.random((n1d, n1d, kz))
    if kind == 'shift':
        out = a.copy(); ps.shift_field_fft(out, b, n1d, L, d, dtype=np.float64)
        fr = np.fft.fftfreq(n1d, 1.0 / n1d)
        for i in range(n1d):
            for j in range(n1d):
                for k in range(kz):
                    cands = [(a[i, j, k] + b[i, j, k] * np.exp(1j * 0.5 * d * (si * fr[i] + sj * fr[j] + k))) * 0.5 / n1d ** 3
                             for si in ((1, -1) if (n1d % 2 == 0 and i == n1d // 2) else (1,)) for sj in ((1, -1) if (n1d % 2 == 0 and j == n1d // 2) else (1,))]
                    if not any(abs(out[i, j, k] - cnd) < 1e-12 for cnd in cands):
                        bad.append(f'mode ({{i}},{{j}},{{k}}) of a {{n1d}}^3 mesh: got {{out[i, j, k]}}, expected {{cands[0]}}')
    elif kind == 'raw_power':
        if not np.allclose(ps.get_raw_power(a, a), np.abs(a) ** 2) or not np.allclose(ps.get_raw_power(a), np.abs(a) ** 2): bad.append('cross(f, f) != |f|^2')
        if not np.allclose(ps.get_raw_power(a, b), (np.conj(a) * b).real): bad.append('cross != Re(conj f g)')
    else:
        f = rng.random((n1d,) * 3)
        for inplace in (True, False):
            out = ps.normalize_field(f.copy(), tot_weight=7.0, inplace=inplace, nthread=2)
            if not np.allclose(out, f * n1d ** 3 / 7.0 - 1): bad.append(f'normalize_field(inplace={{inplace}})')
else:
    import warnings; warnings.simplefilter('ignore')
    pos = rng.random((200, 3)).astype(np.float32) * 10; w = rng.random(200).astype(np.float32)
    kw = dict(kbins=2, paste=case['paste'], nmesh=max(case['nmesh'], 6), compensated=case['compensated'], interlaced=case['interlaced'], w=w, poles=case['poles'] or None, nthread=2)
    A = ps.calc_power(pos.copy(), 10.0, **kw)
    if case['second'] == 'same':
        try:
            B = ps.calc_power(pos.copy(), 10.0, pos2=pos.copy(), w2=w, **kw)
            if not np.allclose(A['power'], B['power'], rtol=1e-4): bad.append(f'cross with the same particles {{B["power"].tolist()}} != auto {{A["power"].tolist()}}')
            # ... and with the very same array OBJECT as both fields (what "the same particles" looks like in user code)
            p1 = pos.copy(); w1 = w.copy(); kw1 = dict(kw, w=w1)
            C = ps.calc_power(p1, 10.0, pos2=p1, w2=w1, **kw1)
            if not np.allclose(A['power'], C['power'], rtol=1e-4): bad.append(f'cross with the same array object as both fields {{C["power"].tolist()}} != auto {{A["power"].tolist()}}')
            if not (np.array_equal(p1, pos) and np.array_equal(w1, w)): bad.append("calc_power modified the caller's position / weight arrays")
        except Exception as ex:
            bad.append(f'cross power with the same particles raised {{type(ex).__name__}}: {{ex}}')
    P = ps.calc_power((pos + 1000.0 * rng.random((200, 3))).astype(np.float32) % 10, 10.0, **kw)
    if not (np.array_equal(A['N_mode'], P['N_mode']) and np.array_equal(A['k_mid'], P['k_mid'])): bad.append('N_mode / k ranges depend on the particles')
print('case', case)
for b_ in bad[:6]: print('  ', b_)
sys.exit(1 if bad else 0)
'''
    return common.write_replay(path, body_)


if __name__ == '__main__':
    sys.exit(harness.main(__import__('checks.c13', fromlist=['x'])))
