"""C05 -- halo statistics are unpacked into consistent physical units.

Same in-memory catalogue as C02 (every raw value a free symbol, BoxSize = B and
VelZSpace_to_kms = V free and unrelated).  Every returned column is compared with an oracle
written from the AbacusSummit data model: length-like columns = raw x B, velocity-like columns
= raw x V, ratio columns = int16/32000 x (the column they are relative to, as loaded), integer
and dimensionless columns unchanged; conversion off = the same with B = V = 1."""
import sys
import re
import numpy as real_np
import z3
from checks import common, catlib, c02
from checks.common import Sym, SArr, ctx, core, arrays, rebind, harness
import abacusnbody.data.compaso_halo_catalog as chc

ID = 'C05'
BOUNDS = {
    'quick': 'one superslab, 2 halos; every halo_info column and every cleaned/progenitor column; raw values free (int16 ratios free ints), '
             'B and V free positive reals (in particular B != V); convert_units on/off; cleaned on/off'
             '; also: every ratio column together with its reference column in both orders; integer-typed BoxSize/VelZSpace header with numpy narrow-integer semantics',
    'thorough': 'same (the column set is exhaustive); additionally 3 halos',
}
OUTSIDE = 'the halo light-cone layout (its interpolation loader is not modelled); float rounding; the eigenvector decoder (opaque here, C18; eigenvector columns are only required to pass through unchanged)'
STUBS = c02.STUBS
ASSUMPTIONS = ['floats are reals', 'B, V > 0', 'the radicand of the middle dispersion is >= 0',
               'progenitor (*_mainprog) and light-cone columns are pass-through in the data model: required unchanged']
MUST_COVER = {'abacusnbody.data.compaso_halo_catalog.CompaSOHaloCatalog._setup_halo_field_loaders': 3}
FUNCS = catlib.FUNCS


def sources():
    return rebind.source_hash(*FUNCS)


COM = r'(?P<com>_(?:L2)?com)'


def oracle(col, raw, B, V, loaded):
    """Expected cells of column ``col`` (flattened, C order).  raw(name) -> flat list of the raw
    column's cells; loaded(name) -> flat list of the LOADED column's cells (for ratio columns)."""
    def scale(name, f):
        return [x * f for x in raw(name)]
    m = re.fullmatch(r'(r\d{1,2}|rvcirc_max)' + COM, col)
    if m:   # radius as int16/32000 of r100 (a length)
        return [i / 32000.0 * (r * B) for i, r in zip(raw(col + '_i16'), raw('r100' + m['com']))]
    m = re.fullmatch(r'sigmav(Min|Maj|rad|tan)' + COM, col)
    if m:   # velocity dispersion component as int16/32000 of the 3D velocity dispersion (a velocity)
        stem = 'sigmav' + m[1].replace('Maj', 'Max')
        return [i / 32000.0 * (s * V) for i, s in zip(raw(stem + '_to_sigmav3d' + m['com'] + '_i16'), raw('sigmav3d' + m['com']))]
    m = re.fullmatch(r'sigmavMid' + COM, col)
    if m:
        return None     # checked through the sum of squares below
    m = re.fullmatch(r'sigmar' + COM, col)
    if m:
        r100 = raw('r100' + m['com'])
        return [i / 32000.0 * (r100[k // 3] * B) for k, i in enumerate(raw(col + '_i16'))]
    m = re.fullmatch(r'sigman' + COM, col)
    if m:
        return [i / 32000.0 * B for i in raw(col + '_i16')]
    if re.fullmatch(r'(x|r100)' + COM, col) or re.fullmatch(r'SO(?:_L2max)?(?:_central_particle|_radius)', col):
        return scale(col, B)
    if re.fullmatch(r'(v|sigmav3d|meanSpeed|sigmav3d_r50|meanSpeed_r50|vcirc_max)' + COM, col):
        return scale(col, V)
    if 'eigenvecs' in col:
        return 'eig'
    if col == 'origin':
        return 'skip'
    return list(raw(col))     # integer / dimensionless / progenitor / light-cone pass-through


def body(cleaned, convert, lc=False, requests=('all',), int_header=False):
    c = ctx()
    c.extra['numpy_int_semantics'] = True      # the loaders are plain numpy: narrow integer raw columns keep their dtype and wrap
    c.extra['int_header'] = int_header
    case = dict(cleaned=cleaned, subsamples=False, convert_units=convert, lightcone=lc, int_header=int_header)
    c.extra['case'] = case
    c.extra['keyprefix'] = 'units:'
    c02.setup(c, cleaned, False)
    for req in requests:
        body_one(c, case, cleaned, convert, lc, req if isinstance(req, str) else list(req))


def body_one(c, case, cleaned, convert, lc, req):
    try:
        cat = catlib.construct('/cat', [0], cleaned, fields=req, convert_units=convert, halo_lc=lc)
    except (KeyError, ValueError, TypeError) as e:
        c.report('violation', f'fields={req!r} fails: {type(e).__name__}: {e}', key='units:raises', info=dict(request=req))
        return
    hdr = catlib.ASDF.files['/cat/halo_info/halo_info_000.asdf']['header']
    B = hdr['BoxSize'] if convert else 1.0
    V = hdr['VelZSpace_to_kms'] if convert else 1.0
    files = catlib.ASDF.files

    def raw(name):
        src = files['/clean/cleaned_halo_info/cleaned_halo_info_000.asdf'] if (cleaned and name in chc.clean_dt_progen.names) else files['/cat/halo_info/halo_info_000.asdf']
        return list(real_np.ndarray.view(src['data'][name], real_np.ndarray).ravel())

    def loaded(name):
        return list(real_np.asarray(cat.halos[name]).ravel())
    c.extra['sample'] = dict(case, columns=len(cat.halos.colnames))
    for col in cat.halos.colnames:
        rawname = 'N_total' if (cleaned and col == 'N') else col
        exp = oracle(rawname, raw, B, V, loaded)
        got = loaded(col)
        info = dict(column=col, request=req)
        if exp == 'skip':
            continue
        if exp == 'eig':
            c.prove(z3.BoolVal(all(isinstance(x, Sym) and '.m' in str(x.e) for x in got)), 'eigenvector columns are passed through from the decoder unchanged',
                    key='units:eig', info=info)
            continue
        if exp is None:
            continue
        if len(exp) != len(got):
            c.report('violation', f'column {col} has {len(got)} cells, expected {len(exp)}', key='units:shape', info=info)
            continue
        kind = ('length' if re.fullmatch(r'((x|r100|r\d{1,2}|rvcirc_max|sigmar|sigman)' + COM + r'|SO.*(particle|radius))', col) else
                'velocity' if re.fullmatch(r'(v|sigmav.*|meanSpeed.*|vcirc_max)' + COM, col) else 'plain')
        conds = []
        for g, e_ in zip(got, exp):
            g, e_ = core.lift(g), core.lift(e_)
            conds.append(g.as_int() == e_.as_int() if (g.kind in 'iv' and e_.kind in 'iv') else core._b(g == e_))
        what = {'length': 'length-like column = stored value x BoxSize (ratios: int16/32000 x the loaded reference radius)',
                'velocity': 'velocity-like column = stored value x VelZSpace_to_kms (ratios: int16/32000 x the loaded 3D dispersion)',
                'plain': 'integer / dimensionless / pass-through column is returned unchanged'}[kind]
        c.prove(z3.And(conds), what, key=f'units:{kind}', info=info)
    # the three principal dispersions: squares sum to the square of the total 3D dispersion, in the same units
    for com in ('_com', '_L2com'):
        names = [f'sigmavMin{com}', f'sigmavMid{com}', f'sigmavMaj{com}', f'sigmav3d{com}']
        if not all(n in cat.halos.colnames for n in names):
            continue
        mn, md, mj, s3 = (loaded(n) for n in names)
        for k in range(len(s3)):
            a, b, d, t = (core.lift(x[k]).as_real() for x in (mn, md, mj, s3))
            c.prove(z3.Implies(t * t - d * d - a * a >= 0, a * a + b * b + d * d == t * t),
                    'squares of the three principal dispersions sum to the square of the 3D dispersion (same units)', key='units:sigmav-sum',
                    info=dict(column=f'sigmavMid{com}', request=req))


def items(tier, seed):
    out = []
    for cleaned in (False, True):
        for convert in (True, False):
            out.append(dict(name=f'cleaned={int(cleaned)}/units={int(convert)}', cleaned=cleaned, convert=convert, lc=False))
    out.append(dict(name='cleaned=0/units=1/integer-header', cleaned=False, convert=True, lc=False, int_header=True))
    # a ratio column requested together with the column it is relative to, in both orders (the loaders share
    # one per-file raw table: a reference column scaled in place would reach its ratio columns twice)
    reqs = []
    for com in ('_com', '_L2com'):
        rr = [n for n in chc.user_dt.names if re.fullmatch(r'(r\d{1,2}|rvcirc_max|sigmar)' + com, n) and n != 'r100' + com]
        vv = [n for n in chc.user_dt.names if re.fullmatch(r'sigmav(Min|Mid|Maj|rad|tan)' + com, n)]
        for dep, ref in [(n, 'r100' + com) for n in rr] + [(n, 'sigmav3d' + com) for n in vv]:
            if dep in chc.user_dt.names and ref in chc.user_dt.names:
                reqs += [[dep, ref], [ref, dep]]
        reqs += [['x' + com, 'r100' + com, 'r50' + com if 'r50' + com in chc.user_dt.names else 'r100' + com], ['v' + com, 'sigmavMid' + com, 'sigmav3d' + com, 'sigmavMaj' + com]]
    for cleaned in (False, True):
        chunk = 12
        for k in range(0, len(reqs), chunk):
            out.append(dict(name=f'cleaned={int(cleaned)}/units=1/requests{k:03d}', cleaned=cleaned, convert=True, lc=False, requests=reqs[k:k + chunk]))
    return out


def run(item):
    return common.run_paths(lambda: body(item['cleaned'], item['convert'], item['lc'], requests=item.get('requests', ('all',)), int_header=item.get('int_header', False)),
                            cov_funcs=FUNCS, max_paths=2000)[0]


def finding_key(e):
    col = e['info'].get('column', '')
    if e['key'] in ('units:velocity', 'units:sigmav-sum') and col.startswith('sigmav') and not col.startswith('sigmav3d'):
        return 'units:sigmav-components'
    return e['key']


def validate(tier):
    return catlib.validate_reader()


REPLAY = '''
sys.path.insert(0, {verif!r})
import tempfile, warnings
from checks import realcat
from abacusnbody.data.compaso_halo_catalog import CompaSOHaloCatalog
import asdf, re
warnings.simplefilter('ignore')
m = {m!r}
case = {case!r}
info = {info!r}
bad = []
B, V = realcat.fl(m.get('BoxSize', 2000)), realcat.fl(m.get('VelZSpace_to_kms', 1234))
if abs(B - V) < 1e-9 * abs(B): V = 0.37 * B + 1.0
if case.get('int_header'): B, V = int(B), int(V)
with tempfile.TemporaryDirectory() as d:
    gdir = realcat.write_catalog(d, m, slabs=(0,), nh=2, cleaned=case['cleaned'], box=B, velz=V)
    cat = CompaSOHaloCatalog(gdir, cleaned=case['cleaned'], fields=info.get('request', 'all'), convert_units=case['convert_units'])
    have = set(cat.halos.colnames)
    with asdf.open(os.path.join(gdir, 'halo_info', 'halo_info_000.asdf')) as af:
        raw = {{k: np.array(af['data'][k]) for k in af['data']}}
    b, v = (B, V) if case['convert_units'] else (1.0, 1.0)
    for com in ('_com', '_L2com'):
        s3 = raw['sigmav3d' + com].astype(float) * v
        for nm in sorted(have):
            mm = re.fullmatch(r'(r[0-9]{{1,2}}|rvcirc_max|sigmar)' + com, nm)
            if mm and nm != 'r100' + com:
                r100 = raw['r100' + com].astype(float) * b
                exp = raw[nm + '_i16'].astype(float) / 32000 * (r100[:, None] if nm.startswith('sigmar') else r100)
                got = np.asarray(cat.halos[nm], dtype=float)
                if not np.allclose(got, exp, rtol=1e-5):
                    bad.append(f'{{nm}} = {{got.tolist()}} but int16/32000 x r100{{com}} x BoxSize = {{exp.tolist()}}  [BoxSize={{B}}]')
        if 'sigman' + com in have:
            exp = raw['sigman' + com + '_i16'].astype(float) / 32000 * b
            got = np.asarray(cat.halos['sigman' + com], dtype=float)
            if not np.allclose(got, exp, rtol=1e-5, atol=1e-9):
                bad.append(f'sigman{{com}} = {{got.tolist()}} but int16/32000 x BoxSize = {{exp.tolist()}}  [BoxSize={{B!r}}]')
        for stem, rawstem in (('Min', 'Min'), ('Maj', 'Max'), ('rad', 'rad'), ('tan', 'tan')):
            if f'sigmav{{stem}}{{com}}' not in have: continue
            exp = raw[f'sigmav{{rawstem}}_to_sigmav3d{{com}}_i16'].astype(float) / 32000 * s3
            got = np.asarray(cat.halos[f'sigmav{{stem}}{{com}}'], dtype=float)
            if not np.allclose(got, exp, rtol=1e-5):
                bad.append(f'sigmav{{stem}}{{com}} = {{got.tolist()}} but int16/32000 x sigmav3d{{com}} (km/s) = {{exp.tolist()}}  [BoxSize={{B}}, VelZSpace_to_kms={{V}}]')
        if not all(f'sigmav{{s}}{{com}}' in have for s in ('Min', 'Mid', 'Maj', '3d')): continue
        mn, md, mj = (np.asarray(cat.halos[f'sigmav{{s}}{{com}}'], dtype=float) for s in ('Min', 'Mid', 'Maj'))
        tot = np.asarray(cat.halos['sigmav3d' + com], dtype=float)
        ok = np.isfinite(md)
        if not np.allclose((mn ** 2 + md ** 2 + mj ** 2)[ok], (tot ** 2)[ok], rtol=1e-4):
            bad.append(f'sigmavMin^2+Mid^2+Maj^2 = {{(mn**2+md**2+mj**2).tolist()}} but sigmav3d{{com}}^2 = {{(tot**2).tolist()}}')
    col = info.get('column')
    if col and col in cat.halos.colnames and not col.startswith('sigmav'):
        rn = 'N_total' if (case['cleaned'] and col == 'N') else col
        import re
        if rn in raw:
            f = b if re.fullmatch(r'((x|r100)_(L2)?com|SO.*(particle|radius))', col) else v if re.fullmatch(r'(v|sigmav3d.*|meanSpeed.*|vcirc_max)_(L2)?com', col) else 1.0
            if not np.allclose(np.asarray(cat.halos[col], dtype=float), raw[rn].astype(float) * f, rtol=1e-5):
                bad.append(f'{{col}} != stored value x {{f}}')
print('case', case, 'column', info.get('column'), 'BoxSize', B, 'VelZSpace_to_kms', V)
for b_ in bad[:8]: print('  ', b_)
sys.exit(1 if bad else 0)
'''


def replay(e, path):
    info = dict(e['info'])
    case = info.pop('case', {})
    return common.write_replay(path, REPLAY.format(verif=harness.VERIF, m=e.get('model', {}), case=case, info=info))


if __name__ == '__main__':
    sys.exit(harness.main(__import__('checks.c05', fromlist=['x'])))
