"""Shared helpers for the per-property check modules."""
import json
import os
import sys
import types
import fractions
import numpy as real_np
import z3

REPO = os.environ.get('VERIF_REPO', '/repo')   # VERIF_REPO: scratch copy for mutation self-tests only
sys.path.insert(0, REPO)

from symnb import core, arrays, rebind, harness  # noqa: E402
from symnb.core import Sym, ctx  # noqa: E402
from symnb.arrays import SArr  # noqa: E402


def fake_modules():
    """Modules absent from the sandbox that /repo imports at module level.  They are only
    needed for the import to succeed; code under analysis that calls them gets per-property
    contract stubs instead."""
    for name in ['blosc', 'parallel_numpy_rng', 'Corrfunc', 'Corrfunc.theory']:
        if name not in sys.modules:
            try:
                __import__(name)
            except Exception:
                sys.modules[name] = types.ModuleType(name)
    m = sys.modules['blosc']
    if not hasattr(m, 'set_nthreads'):
        m.set_nthreads = lambda n: None
        m.SHUFFLE, m.BITSHUFFLE, m.NOSHUFFLE = 1, 2, 0
    m = sys.modules['parallel_numpy_rng']
    if not hasattr(m, 'MTGenerator'):
        m.MTGenerator = object
        m.default_rng = lambda *a, **k: None
    m = sys.modules['Corrfunc.theory']
    if not hasattr(m, 'DDrppi'):
        m.DDrppi = m.DDsmu = m.wp = m.DDsmu_mocks = None
    sys.modules['Corrfunc'].theory = m


def sym_array(name, shape, dt, sort='auto', bv=False):
    """An input array of fresh named constants.  ints: z3 Int (or BitVec of the dtype's
    width with bv=True); floats: z3 Real."""
    c = ctx()
    dtn = arrays.as_npdtype(dt)
    a = SArr(shape, dtn, fill=None, name=name)
    for idx in real_np.ndindex(*a.shape):
        nm = f'{name}[{",".join(map(str, idx))}]'
        if dtn.kind == 'f':
            v = Sym(c.input(nm, z3.RealSort()))
            if dtn.itemsize == 4 and c.extra.get('mark_precision'):
                # a value read from a float32 column IS a float32: rounding it again changes nothing
                c.add(arrays._RND32(v.e) == v.e)
        elif dtn.kind in 'iu' and bv:
            v = Sym(c.input(nm, z3.BitVecSort(dtn.itemsize * 8)), dtn.kind == 'i')
        elif dtn.kind in 'iu':
            v = Sym(c.input(nm, z3.IntSort()))
        elif dtn.kind == 'b':
            v = Sym(c.input(nm, z3.BoolSort()))
        else:
            raise ValueError(dt)
        real_np.ndarray.__setitem__(a, idx, v)
    return a


def cells(a):
    """Raw cell objects of an SArr in C order (no monitors, no forking)."""
    return list(real_np.ndarray.view(a, real_np.ndarray).flat)


def cell(a, *idx):
    return real_np.ndarray.__getitem__(real_np.ndarray.view(a, real_np.ndarray), idx if len(idx) != 1 else idx[0])


def wcounts(a):
    info, cl = arrays.cells_of(a)
    return info.wcount[cl].reshape(a.shape)


def model_array(model, name, shape, dtype):
    """Concrete numpy array for input array ``name`` from a counterexample model."""
    out = real_np.zeros(shape, dtype=dtype)
    for idx in real_np.ndindex(*out.shape):
        nm = f'{name}[{",".join(map(str, idx))}]'
        v = model.get(nm, 0)
        if isinstance(v, str):
            v = float(fractions.Fraction(v))
        out[idx] = v
    return out


def fr(v):
    """model value -> Fraction"""
    return fractions.Fraction(v) if not isinstance(v, bool) else fractions.Fraction(int(v))


REPLAY_HEADER = '''#!/usr/bin/env python
# Replay of a solver counterexample against the REAL code of /repo (no symbolic engine).
# exit 1: the violation reproduces; exit 0: the real code behaves correctly.
import os, sys, types
sys.path.insert(0, os.environ.get('VERIF_REPO', '/repo'))
for _n in ['blosc', 'parallel_numpy_rng', 'Corrfunc', 'Corrfunc.theory']:
    try:
        __import__(_n)
    except Exception:
        sys.modules[_n] = types.ModuleType(_n)
_b = sys.modules['blosc']
if not hasattr(_b, 'set_nthreads'):
    _b.set_nthreads = lambda n: None; _b.SHUFFLE, _b.BITSHUFFLE, _b.NOSHUFFLE = 1, 2, 0
if not hasattr(sys.modules['parallel_numpy_rng'], 'MTGenerator'):
    sys.modules['parallel_numpy_rng'].MTGenerator = object
if not hasattr(sys.modules['Corrfunc.theory'], 'DDrppi'):
    sys.modules['Corrfunc.theory'].DDrppi = sys.modules['Corrfunc.theory'].DDsmu = None
import numpy as np
'''


REPLAY_FOOTER = '''
if __name__ == '__main__':
    try:
        main()
    except SystemExit:
        raise
    except (IndexError, SystemError) as ex:
        # an IndexError escaping from the real code (interpreted py_func, or compiled under
        # NUMBA_BOUNDSCHECK=1, where it may surface as SystemError) is an out-of-bounds access
        import traceback
        traceback.print_exc()
        if isinstance(ex, IndexError) or isinstance(ex.__cause__, IndexError) or 'IndexError' in repr(ex.__cause__) or 'out of bounds' in str(ex):
            print('   uncaught out-of-bounds access in the real code:', repr(ex))
            sys.exit(1)
        sys.exit(3)
    except BaseException:
        import traceback
        traceback.print_exc()
        sys.exit(3)   # replay harness problem, not a verdict
    sys.exit(0)
'''


def write_replay(path, body, env=None, timeout=900):
    """Write a replay script and run it in a fresh interpreter.  Returns (reproduced, detail)."""
    os.makedirs(os.path.dirname(path), exist_ok=True)
    with open(path, 'w') as f:
        f.write(REPLAY_HEADER)
        if env:
            f.write('# environment used: ' + json.dumps(env) + '\n')
        f.write('def main():\n')
        for ln in body.splitlines():
            f.write(('    ' + ln).rstrip() + '\n')
        f.write(REPLAY_FOOTER)
    rc, out = harness.run_replay_script(path, timeout=timeout, env=env)
    if rc == 1:
        return True, out
    if rc == 0:
        return False, out
    if rc in (-11, -6, -7, 139, 134):
        return True, f'the replay process was killed by signal {abs(rc) if rc < 0 else rc - 128} while running the real compiled code (memory corruption)\n' + out
    return None, f'replay script exit {rc}: {out}'


def run_paths(body, cov_funcs=(), max_paths=20000, catch=()):
    """explore + fold; attaches line coverage of the given real functions."""
    lc = harness.LineCov(cov_funcs) if cov_funcs else None
    if lc:
        lc.start()
    try:
        res = core.explore(body, max_paths=max_paths, catch=catch)
    finally:
        if lc:
            lc.stop()
    out = harness.collect(res)
    if lc:
        out['cov'] = lc.result()
    return out, res
