"""Thread-block schedules under IEEE-754 double arithmetic (symnb.fpsched): the real prologues of gen_cent,
gen_sats, fast_concatenate and partition_parallel are executed with symbolic table lengths and float64
terms; the solver decides, for every length within the bound, that the per-thread blocks tile the table.
Used by C10 (HOD kernels), C09 (assembly) and C17 (partition)."""
import inspect
import json
import numpy as real_np
import z3
from checks import common
from symnb import fpsched, harness
import abacusnbody.hod.GRAND_HOD as gh
import abacusnbody.analysis.tsc as tsc

LMAX = 1 << 31          # table lengths 0 .. 2^31 (the kernels index with int64; products with Nthread <= 64 stay below 2^38)
BOUND = 'table lengths symbolic in [0, 2^31]; thread count concrete per item; float64 round-to-nearest-even; linspace as implemented by numba'
STUBS = ['np.linspace: numba\'s implementation (start + i*step, last = stop) on Float64 terms', 'element loops over symbolic ranges are recorded, not iterated',
         'numba.prange: sequential generator tagging the thread id']
ASSUMPTIONS = ['IEEE-754 double, round-to-nearest-even, no fastmath reassociation of the schedule expressions', 'int64 arithmetic does not wrap within the bound']

_ARR3 = ('pos', 'vel', 'vdev', 'ppos', 'pvel', 'hvel')
_INT = ('ids', 'hid')


def _args(fn, n, nthread):
    """placeholder arguments for a HOD kernel: every table has the symbolic length n, every tracer switched off"""
    out = []
    for p in inspect.signature(fn).parameters:
        if p in _ARR3:
            out.append(fpsched.Placeholder(n, 'f8', (3,)))
        elif p in _INT:
            out.append(fpsched.Placeholder(n, 'i8'))
        elif p in ('mass', 'multis', 'randoms', 'deltac', 'fenv', 'shear', 'hmass', 'weights', 'hdeltac', 'hfenv', 'hshear', 'ranks', 'ranksv', 'ranksp', 'ranksr', 'ranksc'):
            out.append(fpsched.Placeholder(n, 'f8'))
        elif p == 'keep_cent':
            out.append(fpsched.Placeholder(n, 'i1'))
        elif p.endswith('_hod_dict'):
            out.append({})
        elif p in ('rsd', 'want_LRG', 'want_ELG', 'want_QSO', 'enable_ranks'):
            out.append(False)
        elif p in ('inv_velz2kms', 'lbox', 'Mpart'):
            out.append(1.0)
        elif p == 'Nthread':
            out.append(nthread)
        elif p == 'origin':
            out.append(None)
        else:
            raise fpsched.ModelGap(f'unexpected parameter {p} of {fn.__name__}')
    return out


TARGETS = {
    # name: (real dispatcher, number of thread loops that must be reached)
    'gen_cent': (gh.gen_cent, 2),
    'gen_sats': (gh.gen_sats, 2),
    'fast_concatenate': (gh.fast_concatenate, 1),
    'partition_parallel': (tsc.partition_parallel, 1),
}
FUNCS = [v[0] for v in TARGETS.values()]


def _body(target, nthread, item_lmax=LMAX):
    disp, _ = TARGETS[target]
    g = fpsched.rebound(disp)
    py = getattr(disp, 'py_func', disp)

    def body(c):
        c.need_loops = TARGETS[target][1]
        if target == 'fast_concatenate':
            n1, n2 = c.sym_len('N1', 0, item_lmax), c.sym_len('N2', 0, item_lmax)
            c.total = n1 + n2
            c.lens = dict(N1=n1, N2=n2)
            return g(fpsched.Placeholder(n1, 'f4'), fpsched.Placeholder(n2, 'f4'), nthread)
        n = c.sym_len('N', 0, LMAX)
        c.total = n
        c.lens = dict(N=n)
        if target == 'partition_parallel':
            return g(fpsched.Placeholder(n, 'f4', (3,)), 2, 1.0, weights=None, coord=0, nthread=nthread, sort=False)
        return g(*_args(py, n, nthread))
    return body


def run(item):
    """item: dict(kind='fpsched', target=..., nthread=...)"""
    target, nthread = item['target'], item['nthread']
    _, need = TARGETS[target]
    lc = harness.LineCov([TARGETS[target][0]])
    lc.start()
    try:
        paths, st = fpsched.explore(_body(target, nthread, item.get('lmax', LMAX)), timeout_ms=item.get('timeout_ms', 240000))
    except fpsched.Inconclusive as e:
        lc.stop()
        return dict(paths=0, queries=0, solver_s=0.0, proved=0, reached=0, samples=[], assumptions=ASSUMPTIONS, cov=lc.result(),
                    events=[dict(kind='inconclusive', what=f'schedule exploration of {target}: {e}', key=f'sched:{target}:explore', info=dict(case=dict(item)))])
    lc.stop()
    out = dict(paths=st['paths'], queries=st['queries'], solver_s=st['solver_s'], proved=0, reached=0, events=[], samples=[], assumptions=list(ASSUMPTIONS), cov=lc.result())
    case = dict(kind='fpsched', target=target, Nthread=nthread)
    for p in paths:
        c = p['ctx']
        if p['exc'] == 'abort':
            continue
        out['reached'] += 1
        loops = sorted({i['loop'] for i in c.intervals if i['tid'] is not None})
        serial = nthread == 1 and target == 'fast_concatenate'
        early = target == 'fast_concatenate' and not loops and p['exc'] is None       # N1 == 0 or N2 == 0: returns the other array
        if p['exc'] and p['exc'].startswith('inconclusive'):
            out['events'].append(dict(kind='inconclusive', what=f'{target}: {p["exc"]}', key=f'sched:{target}:explore', info=dict(case=case)))
            continue
        if not (serial or early) and len(loops) < need:
            out['events'].append(dict(kind='inconclusive', what=f'{target}: only {len(loops)} of {need} thread loops reached ({p["exc"]})',
                                      key=f'sched:{target}:reach', info=dict(case=case)))
            continue
        if len(out['samples']) < 2:
            out['samples'].append(dict(case, loops=len(loops), stopped=p['exc']))
        for lp in loops[:need]:
            obs, iv = fpsched.tiling_obligations(c, lp, c.total)
            for name, f in obs:
                t0 = c.solver_s
                r, m = c.check([z3.Not(f)])
                out['queries'] += 1
                out['solver_s'] += c.solver_s - t0
                if r == 'unsat':
                    out['proved'] += 1
                elif r == 'sat':
                    # prefer a small witness: retry with the lengths capped (a few cheap extra queries)
                    for cap in (1 << 6, 1 << 9, 1 << 12, 1 << 16, 1 << 20, 1 << 24):
                        r2, m2 = c.check([z3.Not(f)] + [v.e <= cap for v in c.lens.values()], timeout_ms=60000)
                        out['queries'] += 1
                        if r2 == 'sat':
                            m = m2
                            break
                    model = {k: m.eval(v.e, model_completion=True).as_signed_long() for k, v in c.lens.items()}
                    blocks = [[m.eval(fpsched._bv(i['lo']), model_completion=True).as_signed_long(), m.eval(fpsched._bv(i['hi']), model_completion=True).as_signed_long()] for i in iv]
                    out['events'].append(dict(kind='violation', key=f'sched:{target}:tiling', model=model,
                                              what=f'{target}, Nthread={nthread}, thread loop {lp}: "{name}" fails for table length(s) {model}: blocks {blocks[:20]}',
                                              info=dict(case=dict(case, loop=lp, blocks=blocks[:64]))))
                    break
                else:
                    out['events'].append(dict(kind='inconclusive', what=f'{target}, Nthread={nthread}: solver gave {r} on "{name}"', key=f'sched:{target}:unknown',
                                              info=dict(case=case)))
    return out


VISITED_SRC = '''
def visited(fn, args, kwargs):
    """run the REAL function body (py_func, real numpy floats) with a recording range(): which element indices does each thread loop visit?"""
    f = fn.py_func
    G = dict(f.__globals__)
    loops = []
    class NB:
        config = numba.config
        typed = numba.typed
        types = numba.types
        def set_num_threads(self, n): pass
        def prange(self, *a):
            loops.append([])
            return builtins.range(*a)
    def rrange(*a):
        r = builtins.range(*[int(x) for x in a])
        if loops and len(r):
            loops[-1].append((r.start, r.stop))
        return builtins.range(0)        # the per-element work is not the subject
    b = dict(vars(builtins)); b['range'] = rrange
    G['__builtins__'] = b; G['numba'] = NB()
    g = _types.FunctionType(f.__code__, G, f.__name__, f.__defaults__, f.__closure__)
    try:
        g(*args, **kwargs)
    except Exception as ex:
        if not loops: raise
    return loops
'''


REPLAY = '''
import inspect, builtins, types as _types
import numba
import abacusnbody.hod.GRAND_HOD as gh
import abacusnbody.analysis.tsc as tsc
m = {m!r}
case = {case!r}
target, nt = case['target'], case['Nthread']
bad = []
{visited_src}
if target == 'fast_concatenate':
    N1, N2 = int(m['N1']), int(m['N2'])
    if N1 + N2 <= 50_000_000:
        a = np.arange(N1, dtype=np.float32); b = np.arange(N2, dtype=np.float32) + 0.5
        r = gh.fast_concatenate(a, b, nt)
        if len(r) != N1 + N2 or not (np.array_equal(r[:N1], a) and np.array_equal(r[N1:], b)):
            bad.append(f'compiled fast_concatenate(N1={{N1}}, N2={{N2}}, Nthread={{nt}}) is not array1 followed by array2')
    else:
        class L:
            def __init__(s, n): s.n = n; s.dtype = np.dtype('f4')
            def __len__(s): return s.n
        loops = visited(gh.fast_concatenate, (L(N1), L(N2), nt), {{}})
        print('blocks not enumerated for this size; loops', len(loops))
elif target == 'partition_parallel':
    N = int(m['N'])
    pos = np.random.default_rng(0).random((N, 3))
    ps, st, _ = tsc.partition_parallel(pos, 2, 1.0, nthread=min(nt, numba.config.NUMBA_NUM_THREADS))
    if sorted(map(tuple, ps.tolist())) != sorted(map(tuple, pos.tolist())): bad.append(f'partition_parallel(N={{N}}, nthread={{nt}}) does not return a permutation of its input')
else:
    N = int(m['N'])
    fn = getattr(gh, target)
    args = []
    for p in inspect.signature(fn.py_func).parameters:
        if p in ('pos', 'vel', 'vdev', 'ppos', 'pvel', 'hvel'): args.append(np.zeros((N, 3), dtype=np.float32))
        elif p in ('ids', 'hid'): args.append(np.arange(N, dtype=np.int64))
        elif p == 'keep_cent': args.append(np.zeros(N, dtype=np.int8))
        elif p.endswith('_hod_dict'): args.append({{}})
        elif p in ('rsd', 'want_LRG', 'want_ELG', 'want_QSO', 'enable_ranks'): args.append(False)
        elif p in ('inv_velz2kms', 'lbox', 'Mpart'): args.append(1.0)
        elif p == 'Nthread': args.append(nt)
        elif p == 'origin': args.append(None)
        else: args.append(np.zeros(N, dtype=np.float32))
    loops = visited(fn, args, {{}})
    for k, lp in enumerate(loops[:2]):
        cur, gaps, overl = 0, [], []
        for a, b in sorted(lp):
            if a > cur: gaps.append((cur, a))
            if a < cur: overl.append((a, min(b, cur)))
            cur = max(cur, b)
        if cur < N: gaps.append((cur, N))
        if cur > N: overl.append((N, cur))
        if gaps or overl:
            bad.append(f'{{target}}(H={{N}}, Nthread={{nt}}): thread loop {{k + 1}} blocks {{sorted(lp)[:12]}} leave rows {{gaps[:4]}} unvisited / visit {{overl[:4]}} twice or out of range')
print('case', case, 'lengths', m)
for b_ in bad: print('  ', b_)
sys.exit(1 if bad else 0)
'''


def replay(e, path):
    case = e['info'].get('case', {})
    return common.write_replay(path, REPLAY.format(m=e.get('model', {}), case=case, visited_src=VISITED_SRC))


def _hod_args(fn, N, nt):
    args = []
    for p in inspect.signature(fn.py_func).parameters:
        if p in _ARR3: args.append(real_np.zeros((N, 3), dtype=real_np.float32))
        elif p in _INT: args.append(real_np.arange(N, dtype=real_np.int64))
        elif p == 'keep_cent': args.append(real_np.zeros(N, dtype=real_np.int8))
        elif p.endswith('_hod_dict'): args.append({})
        elif p in ('rsd', 'want_LRG', 'want_ELG', 'want_QSO', 'enable_ranks'): args.append(False)
        elif p in ('inv_velz2kms', 'lbox', 'Mpart'): args.append(1.0)
        elif p == 'Nthread': args.append(nt)
        elif p == 'origin': args.append(None)
        else: args.append(real_np.zeros(N, dtype=real_np.float32))
    return args


def validate():
    """translator validation: for concrete table lengths the blocks computed by the Float64 encoding must be exactly the
    blocks the real function body computes with numpy doubles (recording range), for each target"""
    import builtins as _b
    ns = dict(builtins=_b, _types=__import__('types'), numba=__import__('numba'), np=real_np)
    exec('import builtins, types as _types\n' + VISITED_SRC, ns)
    n = 0
    for target, N, nt in (('gen_cent', 15, 11), ('gen_cent', 1000, 7), ('gen_sats', 61, 14), ('gen_sats', 5, 9), ('partition_parallel', 10000, 13)):
        disp = TARGETS[target][0]
        if target == 'partition_parallel':
            real = ns['visited'](disp, (real_np.zeros((N, 3)), 2, 1.0), dict(nthread=nt))
        else:
            real = ns['visited'](disp, _hod_args(disp, N, nt), {})

        def body(c, target=target, N=N, nt=nt):
            c.need_loops = TARGETS[target][1]
            nn = c.sym_len('N', N, N)
            c.total = nn
            g = fpsched.rebound(disp)
            if target == 'partition_parallel':
                return g(fpsched.Placeholder(nn, 'f8', (3,)), 2, 1.0, weights=None, coord=0, nthread=nt, sort=False)
            return g(*_args(getattr(disp, 'py_func', disp), nn, nt))
        paths, st = fpsched.explore(body, timeout_ms=60000)
        c = [p for p in paths if p['exc'] is None][0]['ctx']
        r, m = c.check([])
        assert r == 'sat'
        for lp in sorted({i['loop'] for i in c.intervals if i['tid'] is not None})[:TARGETS[target][1]]:
            enc = [(m.eval(fpsched._bv(i['lo']), model_completion=True).as_signed_long(), m.eval(fpsched._bv(i['hi']), model_completion=True).as_signed_long())
                   for i in c.intervals if i['loop'] == lp and i['tid'] is not None]
            enc = [x for x in enc if x[1] > x[0]]
            assert enc == sorted(real[lp - 1]), (target, N, nt, lp, enc[:6], sorted(real[lp - 1])[:6])
            n += 1
    return n



def items(targets, nthreads):
    return [dict(name=f'fpsched/{t}/Nthread={nt}', kind='fpsched', target=t, nthread=nt) for t in targets for nt in nthreads]
