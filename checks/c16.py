"""C16 -- read_asdf returns exactly the requested particle columns.

The real read_asdf / _resolve_columns run on an in-memory ASDF tree (asdf.open stubbed) whose
raw columns are free bit-vectors and whose set of raw columns is decided by free symbolic
presence flags; the returned astropy Table is compared with the direct decode of the raw
column by the (re-bound, real) decoders."""
import sys
import itertools
import types
import warnings
import numpy as real_np
import z3
from checks import common
common.fake_modules()
from checks.common import Sym, SArr, ctx, core, arrays, rebind, harness
import abacusnbody.data.read_abacus as ra
import abacusnbody.data.bitpacked as bp
import abacusnbody.data.pack9 as p9

ID = 'C16'
BOUNDS = {
    'quick': 'presence of rvint / pack9 / packedpid / pid raw columns: 4 free booleans (all 16 file kinds); N in {0,2} records of free '
             'bit-vectors (pack9: header + 2 records); load in {None, every subset of the loadable names of the file kind (<= 2 names)}; '
             'colname in {None, explicit}; dtype in {f4,f8}; deprecated load_pos/load_vel in {None,T,F}^2; light-cone and snapshot headers'
             '; also: all pairs of particle-id outputs and (aux, pid); float32 rounding markers',
    'thorough': 'as quick with all subsets of the six pid-derived names and N=3',
}
OUTSIDE = 'the ASDF container and decompression (stubbed); decoding itself (C04, C15); verbose printing'
STUBS = ['asdf.open: in-memory tree (membership of a raw column name is a free boolean)', 'asdf compression validation: no-op']
ASSUMPTIONS = ['floats are reals', 'BoxSize > 0, ppd >= 1']
MUST_COVER = {'abacusnbody.data.read_abacus.read_asdf': 8,    # asdf import fallbacks, extension-missing error, verbose print
              'abacusnbody.data.read_abacus._resolve_columns': 0}

RB = rebind.Rebound(bp)
RP = rebind.Rebound(p9)
RR = rebind.Rebound(ra, overrides=dict(unpack_pids=RB.unpack_pids, unpack_rvint=RB.unpack_rvint, unpack_pack9=RP.unpack_pack9))
FUNCS = [ra.read_asdf, ra._resolve_columns]
RAW = ['rvint', 'pack9', 'packedpid', 'pid']


def sources():
    return rebind.source_hash(*FUNCS)


class Tree(dict):
    def __init__(self, cols, present):
        super().__init__(cols)
        self.present = present

    def __contains__(self, k):
        if k in self.present:
            return self.present[k]
        return dict.__contains__(self, k)

    def __getitem__(self, k):
        if k in self.present and not bool(self.present[k]):
            raise KeyError(k)
        return dict.__getitem__(self, k)


class AF:
    def __init__(self, tree):
        self.tree = tree

    def __enter__(self):
        return self

    def __exit__(self, *a):
        return False

    def __getitem__(self, k):
        return self.tree[k]


class fake_asdf:
    """stands in for the `asdf` package imported inside read_asdf"""

    def __init__(self, af):
        self.af = af
        self.saved = {}

    def __enter__(self):
        m = types.ModuleType('asdf')
        m.open = lambda fn, **kw: self.af
        comp = types.ModuleType('asdf._compression')
        comp.validate = lambda label: True
        m._compression = comp
        for k, v in (('asdf', m), ('asdf._compression', comp)):
            self.saved[k] = sys.modules.get(k)
            sys.modules[k] = v
        return self

    def __exit__(self, *a):
        for k, v in self.saved.items():
            if v is None:
                sys.modules.pop(k, None)
            else:
                sys.modules[k] = v
        return False


def _strip(x):
    """the value as held by a float32 column: one outer rounding marker more or less is the same stored number"""
    if z3.is_app(x.e) and x.e.decl().eq(arrays._RND32):
        return Sym(x.e.arg(0))
    return x


def same(a, b):
    a, b = _strip(core.lift(a)), _strip(core.lift(b))
    if a.e.eq(b.e):
        return z3.BoolVal(True)
    return core._b(a == b)


def body(N, load, colname, fdt, dep, lightcone):
    c = ctx()
    case = dict(N=N, load=None if load is None else list(load), colname=colname, float_dtype=fdt, deprecated=dep, lightcone=lightcone)
    c_ = ctx()
    c_.extra['mark_precision'] = True      # float32 casts are opaque rounding markers: decoding in the wrong precision is a different term
    c.extra['case'] = case
    c.extra['keyprefix'] = 'read:'
    box = Sym(c.input('BoxSize', z3.RealSort()))
    velz = Sym(c.input('VelZSpace_to_kms', z3.RealSort()))
    ppd = Sym(c.input('ppd', z3.IntSort()))
    # headers store ppd = NP**(1/3) as a float that may sit a rounding error below or above the integer
    ppd_hdr = Sym(c.input('ppd_header', z3.RealSort()))
    c.assume(z3.And(box.e > 0, ppd.e >= 1, ppd_hdr.e - z3.ToReal(ppd.e) <= z3.RealVal('1/1000000'), z3.ToReal(ppd.e) - ppd_hdr.e <= z3.RealVal('1/1000000')))
    header = {'BoxSize': box, 'VelZSpace_to_kms': velz, 'ppd': ppd_hdr}
    if lightcone:
        header.update(OutputType='LightCone', SimSet='AbacusSummit', ParticleSubsampleA=0.03, ParticleSubsampleB=0.07)
    cols = {'rvint': common.sym_array('rvint', (N, 3), 'i4', bv=True), 'packedpid': common.sym_array('packedpid', (N,), 'u8', bv=True),
            'pid': common.sym_array('pidcol', (N,), 'u8', bv=True)}
    p9a = common.sym_array('pack9', (N + 1 if N else 0, 9), 'u1', bv=True)
    if N:
        c.assume(common.cell(p9a, 0, 0).e == 0xFF)       # stream starts with a header; the other records are particles
        for i in range(1, N + 1):
            c.assume(common.cell(p9a, i, 0).e != 0xFF)
        from checks import c15
        c.assume(z3.BV2Int(c15.fields([common.cell(p9a, 0, k).e for k in range(9)])[1], False) - 2048 + 2000 >= 1)
    cols['pack9'] = p9a
    present = {k: Sym(c.input(f'has[{k}]', z3.BoolSort())) for k in RAW}
    tree = {'data': Tree(cols, present), 'header': header}
    # the oracle decodes a snapshot of the file taken BEFORE the call: a reader that scribbles over the block it loaded
    # (and thereby over a column that shares the block) must not take the oracle with it
    cols = {k: v.copy() for k, v in cols.items()}
    kw = {}
    if dep[0] is not None:
        kw['load_pos'] = dep[0]
    if dep[1] is not None:
        kw['load_vel'] = dep[1]
    err = None
    with fake_asdf(AF(tree)), warnings.catch_warnings():
        warnings.simplefilter('ignore')
        try:
            tab = RR.read_asdf('/data/slab.asdf', load=None if load is None else tuple(load), colname=colname, dtype=arrays.T(fdt), verbose=False, **kw)
        except ValueError as e:
            err = e
        except KeyError as e:
            err = e
    # which raw columns exist on this path
    def known(b):
        r, _ = c._check([z3.Not(b.e)], core.FORK_TIMEOUT_MS)
        return r == 'unsat'
    have = [k for k in RAW if known(present[k])]
    undecided = [k for k in RAW if not known(present[k]) and c.feasible(present[k].e)]
    c.extra['sample'] = dict(case, raw_columns=have, error=type(err).__name__ if err else None)
    if colname is None:
        if undecided:
            # the code stopped looking before deciding these: only legal when it already raised
            c.prove(z3.BoolVal(err is not None and len(have) >= 2), 'auto-detection inspects every known raw column', key='read:detect')
            return
        if len(have) != 1:
            c.prove(z3.BoolVal(isinstance(err, ValueError)), 'a file with none or several of the known raw columns raises unless the column is named',
                    key='read:ambiguous')
            return
        col = have[0]
    else:
        col = colname
        if col not in have:
            c.prove(z3.BoolVal(err is not None), 'naming a raw column that the file lacks is an error', key='read:missing')
            return
    loadable = ('pos', 'vel') if col in ('rvint', 'pack9') else tuple(PIDNAMES)
    if (load is not None and any(nm not in loadable for nm in load)) or (load is None and dep != (None, None) and col not in ('rvint', 'pack9')):
        c.extra['sample'] = dict(case, note='request names a column this file type cannot provide: outside the property')
        c.prove(z3.BoolVal(True), 'request outside the quantifier (non-loadable column for this file type): no obligation', key='read:na')
        return
    if err is not None:
        c.report('violation', f'read_asdf raised {type(err).__name__}: {err} for a well-formed request', key='read:spurious-error')
        return
    # ---- expected column set
    if load is not None:
        want = list(load)
    elif dep[0] is not None or dep[1] is not None:
        want = None     # deprecated flags: only the unambiguous outcomes are demanded below
    else:
        want = ['pos', 'vel'] if col in ('rvint', 'pack9') else ['pid']
    got_cols = list(tab.colnames)
    if want is not None:
        ok = sorted(got_cols) == sorted(want)
    else:
        ok = all(((nm in got_cols) if flag is True else (nm not in got_cols) if flag is False else True) for nm, flag in (('pos', dep[0]), ('vel', dep[1])))
    c.prove(z3.BoolVal(ok), 'the table has exactly the requested columns (or the documented defaults for the file type)', key='read:columns',
            info=dict(got=got_cols, want=want))
    c.prove(z3.BoolVal(tab.meta is header or dict(tab.meta) == header), 'the table metadata is the file header', key='read:meta')
    if lightcone:
        c.prove(z3.BoolVal(abs(float(header.get('SubsampleFraction', -1)) - 0.1) < 1e-12), 'light-cone header gains SubsampleFraction = A + B', key='read:meta')
    # ---- values: direct decode of the raw column
    T = arrays.T(fdt)
    if col == 'rvint':
        epos, evel = RB.unpack_rvint(cols['rvint'], box, float_dtype=T)
        exp = dict(pos=epos, vel=evel)
        nrow = N
    elif col == 'pack9':
        epos, evel = RP.unpack_pack9(cols['pack9'], box, velz, float_dtype=T)
        exp = dict(pos=epos, vel=evel)
        nrow = N
    else:
        exp = RB.unpack_pids(cols[col], box=box, ppd=ppd, float_dtype=T, pid=True, lagr_pos=True, tagged=True, density=True, lagr_idx=True)
        exp['aux'] = cols[col]
        nrow = N
    conds = [z3.BoolVal(len(tab) == nrow or not got_cols)]
    for nm in got_cols:
        if nm not in exp:
            c.report('violation', f'unexpected column {nm}', key='read:columns')
            return
        got = real_np.asarray(tab[nm])
        e_ = real_np.ndarray.view(exp[nm], real_np.ndarray)
        if got.shape != e_.shape:
            conds.append(z3.BoolVal(False))
            continue
        for idx in real_np.ndindex(*got.shape):
            g = got[idx]
            if g is arrays.UNINIT:
                c.report('violation', f'column {nm} has an unwritten cell', key='read:unwritten')
                return
            conds.append(same(g, e_[idx]))
    c.prove(z3.And(conds), 'one row per particle in file order; every column equals the direct decode of the raw column', key='read:values')


PIDNAMES = ['pid', 'lagr_pos', 'tagged', 'density', 'lagr_idx', 'aux']


def items(tier, seed):
    out = []
    Ns = (0, 2) if tier == 'quick' else (0, 2, 3)
    loads = [None, (), ('pos',), ('vel',), ('pos', 'vel'), ('vel', 'pos'), ('pid',), ('aux',), ('pid', 'lagr_pos'), ('tagged', 'density'),
             ('lagr_idx', 'aux'), ('pos', 'pid')]
    # every pair of particle-id outputs (the raw 'aux' column shares its buffer with the block the other outputs are decoded from)
    loads += [c for c in itertools.combinations(PIDNAMES, 2) if c not in loads] + [('aux', 'pid')]
    if tier == 'thorough':
        loads += [c for r in (3, 4, 5, 6) for c in itertools.combinations(PIDNAMES, r)]
    for N in Ns:
        for li, load in enumerate(loads):
            for colname in (None, 'rvint', 'pack9', 'packedpid', 'pid'):
                fdt = 'f4' if (li + N) % 2 == 0 else 'f8'
                out.append(dict(name=f'N={N}/load={"-".join(load) if load is not None else "None"}/col={colname}/{fdt}', N=N, load=load,
                                colname=colname, fdt=fdt, dep=(None, None), lc=(li % 3 == 0)))
        for dp in itertools.product((None, True, False), repeat=2):
            if dp == (None, None):
                continue
            out.append(dict(name=f'N={N}/deprecated={dp[0]}-{dp[1]}', N=N, load=None, colname=None, fdt='f4', dep=dp, lc=False))
        out.append(dict(name=f'N={N}/load=pos+deprecated', N=N, load=('pos',), colname=None, fdt='f4', dep=(False, True), lc=False))
    return out


def run(item):
    load = None if item['load'] is None else tuple(item['load'])
    return common.run_paths(lambda: body(item['N'], load, item['colname'], item['fdt'], tuple(item['dep']), item['lc']), cov_funcs=FUNCS)[0]


def _write_file(d, kind, N, box=2000.0):
    import asdf
    import os
    rng = real_np.random.default_rng(4)
    data = {}
    if kind == 'rvint':
        data['rvint'] = rng.integers(-2 ** 31, 2 ** 31 - 1, (N, 3)).astype(real_np.int32)
    elif kind == 'pack9':
        recs = [[0xFF, 0x06, 0xA5 + 0, 0x80, 0x08, 0x64, 0x7D, 0x08, 0x00]] + [[int(x) for x in rng.integers(0, 255, 9)] for _ in range(N)]
        for r in recs[1:]:
            r[0] &= 0x7F
        data['pack9'] = real_np.array(recs, dtype=real_np.uint8)
    else:
        data[kind] = rng.integers(0, 2 ** 63, N).astype(real_np.uint64)
    fn = os.path.join(d, f'{kind}.asdf')
    asdf.AsdfFile({'data': data, 'header': {'BoxSize': box, 'VelZSpace_to_kms': 1234.5, 'ppd': 6912.0}}).write_to(fn)
    return fn, data


def validate(tier):
    """real read_asdf on real (uncompressed) ASDF files vs the direct decoders"""
    import tempfile
    n = 0
    with tempfile.TemporaryDirectory() as d:
        fn, data = _write_file(d, 'rvint', 5)
        t = ra.read_asdf(fn, load=('vel', 'pos'), dtype=real_np.float64, verbose=False)
        pos, vel = bp.unpack_rvint(data['rvint'], 2000.0, float_dtype=real_np.float64)
        assert sorted(t.colnames) == ['pos', 'vel'] and real_np.array_equal(t['pos'], pos) and real_np.array_equal(t['vel'], vel) and len(t) == 5
        n += 1
        fn, data = _write_file(d, 'packedpid', 4)
        t = ra.read_asdf(fn, verbose=False)
        assert t.colnames == ['pid'] and real_np.array_equal(t['pid'], bp.unpack_pids(data['packedpid'], pid=True)['pid'])
        n += 1
        fn, data = _write_file(d, 'pack9', 3)
        t = ra.read_asdf(fn, verbose=False)
        pos, vel = p9.unpack_pack9(data['pack9'], 2000.0, 1234.5)
        assert len(t) == 3 and real_np.array_equal(t['pos'], pos) and real_np.array_equal(t['vel'], vel)
        n += 1
    return n


def replay(e, path):
    i = e['info'].get('case', {})
    m = e.get('model', {})
    body_ = f'''
import asdf, tempfile, warnings
import abacusnbody.data.read_abacus as ra
import abacusnbody.data.bitpacked as bp
import abacusnbody.data.pack9 as p9
from fractions import Fraction as F
m = {m!r}
case = {i!r}
N = case['N']
box, velz, ppd = float(F(m.get('BoxSize', 1))), float(F(m.get('VelZSpace_to_kms', 1))), float(m.get('ppd', 1))
ppd_hdr = float(F(m.get('ppd_header', ppd)))
if ppd_hdr != ppd: ppd_hdr = ppd + (1e-9 * ppd if ppd_hdr > ppd else -1e-9 * ppd)
data = {{}}
if m.get('has[rvint]', False): data['rvint'] = np.array([[m.get(f'rvint[{{i}},{{j}}]', 0) for j in range(3)] for i in range(N)], dtype=np.uint32).astype(np.int32).reshape(N, 3)
if m.get('has[pack9]', False): data['pack9'] = np.array([[m.get(f'pack9[{{i}},{{k}}]', 0xFF if (i == 0 and k == 0) else 0) for k in range(9)] for i in range(N + 1 if N else 0)], dtype=np.uint8).reshape(-1, 9)
if m.get('has[packedpid]', False): data['packedpid'] = np.array([m.get(f'packedpid[{{i}}]', 0) for i in range(N)], dtype=np.uint64)
if m.get('has[pid]', False): data['pid'] = np.array([m.get(f'pidcol[{{i}}]', 0) for i in range(N)], dtype=np.uint64)
hdr = {{'BoxSize': box, 'VelZSpace_to_kms': velz, 'ppd': ppd_hdr}}
if case['lightcone']: hdr.update(OutputType='LightCone', SimSet='AbacusSummit', ParticleSubsampleA=0.03, ParticleSubsampleB=0.07)
fd = np.dtype(case['float_dtype']).type
kw = {{}}
if case['deprecated'][0] is not None: kw['load_pos'] = case['deprecated'][0]
if case['deprecated'][1] is not None: kw['load_vel'] = case['deprecated'][1]
bad = []
with tempfile.TemporaryDirectory() as d, warnings.catch_warnings():
    warnings.simplefilter('ignore')
    fn = os.path.join(d, 'f.asdf'); asdf.AsdfFile({{'data': data, 'header': hdr}}).write_to(fn)
    err = tab = None
    # history: the property holds for every call whatever was read before in the same process (the engine's worker runs the
    # work items' calls one after another in one process, so module-level state left by one call is seen by the next);
    # a prelude of well-formed earlier requests reconstructs that history here
    for pk in (dict(load_pos=False), dict(load_vel=False), dict(load_pos=True, load_vel=True), dict(load=('pos',)), dict(load=('pid',)), dict()):
        try: ra.read_asdf(fn, colname=case['colname'], dtype=fd, verbose=False, **pk)
        except Exception: pass
    try:
        tab = ra.read_asdf(fn, load=None if case['load'] is None else tuple(case['load']), colname=case['colname'], dtype=fd, verbose=False, **kw)
    except Exception as ex:
        err = ex
have = list(data)
col = case['colname'] or (have[0] if len(have) == 1 else None)
if col is None or col not in have:
    if err is None: bad.append(f'no error for raw columns {{have}} with colname={{case["colname"]}}')
elif err is not None:
    bad.append(f'raised {{type(err).__name__}}: {{err}}')
else:
    if case['load'] is not None: want = sorted(case['load'])
    elif kw and case['load'] is None: want = None
    else: want = ['pos', 'vel'] if col in ('rvint', 'pack9') else ['pid']
    if want is not None and sorted(tab.colnames) != want: bad.append(f'columns {{tab.colnames}}, requested {{want}}')
    if col == 'rvint': ep, ev = bp.unpack_rvint(data['rvint'], box, float_dtype=fd); exp = dict(pos=ep, vel=ev)
    elif col == 'pack9': ep, ev = p9.unpack_pack9(data['pack9'], box, velz, float_dtype=fd); exp = dict(pos=ep, vel=ev)
    else:
        exp = bp.unpack_pids(data[col], box=box, ppd=ppd, float_dtype=fd, pid=True, lagr_pos=True, tagged=True, density=True, lagr_idx=True); exp['aux'] = data[col]
    for nm in tab.colnames:
        if nm not in exp or not np.array_equal(np.asarray(tab[nm]), exp[nm]): bad.append(f'column {{nm}} differs from the direct decode (or is unexpected)')
    if len(tab) != N and tab.colnames: bad.append(f'{{len(tab)}} rows for {{N}} particles')
print('case', case, 'raw columns', have)
for b_ in bad: print('  ', b_)
sys.exit(1 if bad else 0)
'''
    return common.write_replay(path, body_)


if __name__ == '__main__':
    sys.exit(harness.main(__import__('checks.c16', fromlist=['x'])))
