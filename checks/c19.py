"""C19 -- util.cumsum writes exactly the selected partial sums, for every length incl. 0.

The real ``cumsum.py_func`` code object is executed on symbolic element values and a
symbolic offset for every (length, initial, final, len(out)) in the bound; the oracle is
out[j] = offset + sum(arr[:j+1-initial]); wrong output lengths must raise ValueError before
any write; the engine's out-of-bounds monitor uses numba's semantics (negative indices wrap,
nothing is checked at run time)."""
import sys
import numpy as real_np
import z3
from checks import common
from checks.common import Sym, SArr, ctx, core, arrays, rebind, harness
import abacusnbody.util as util

ID = 'C19'
BOUNDS = {
    'quick': 'input length N in 0..6; len(out) in N-2..N+2 (>=0); initial,final in {F,T}^2; element values and offset '
             'unbounded symbolic (Int, or Real for the float pairing); pairings int64->int64, uint32->uint64, '
             'int64->float64, float64->float64, python list input (N>=1: numba cannot type an empty list)',
    'thorough': 'as quick with N in 0..64 for every pairing',
}
OUTSIDE = 'N above the bound; wrap-around of the 64-bit accumulator (mathematical integers); float rounding (real model)'
STUBS = []
ASSUMPTIONS = ['integers are mathematical (no 64-bit wrap)', 'floats are reals']
MUST_COVER = {'abacusnbody.util.cumsum': 0}

R = rebind.Rebound(util)
FUNCS = [util.cumsum]


def sources():
    return rebind.source_hash(*FUNCS)


PAIRINGS = {
    'i8->i8': ('i8', 'i8'), 'u4->u8': ('u4', 'u8'), 'i8->f8': ('i8', 'f8'), 'f8->f8': ('f8', 'f8'), 'list->i8': ('list', 'i8'),
}


def items(tier, seed):
    nmax = 6 if tier == 'quick' else 64
    out = []
    for pairing in PAIRINGS:
        for N in range(nmax + 1):
            if pairing not in ('i8->i8',) and tier == 'quick' and N > 3:
                continue
            if pairing.startswith('list') and N == 0:
                continue   # numba cannot type an empty reflected list at all (outside the kernel)
            out.append(dict(name=f'cumsum/{pairing}/N={N}', N=N, pairing=pairing))
    return out


def _body(N, initial, final, lenout, pairing):
    c = ctx()
    din, dout = PAIRINGS[pairing]
    if din == 'list':
        arr = [Sym(c.input(f'arr[{i}]', z3.IntSort())) for i in range(N)]
    else:
        arr = common.sym_array('arr', (N,), din)
    off = Sym(c.input('offset', z3.RealSort() if dout == 'f8' and din == 'f8' else z3.IntSort()))
    out = SArr((lenout,), dout, name='out')
    expect_len = N - 1 + int(initial) + int(final)
    c.extra['sample'] = dict(N=N, initial=initial, final=final, len_out=lenout, pairing=pairing)
    info = dict(N=N, initial=initial, final=final, len_out=lenout, pairing=pairing)
    key = f'cumsum:N={"0" if N == 0 else ">0"}'
    c.extra['case'] = info
    c.extra['keyprefix'] = key + ':'
    try:
        tot = R.cumsum(arr, out, initial, final, off)
    except ValueError:
        ok = lenout != expect_len and int(common.wcounts(out).sum()) == 0
        c.prove(z3.BoolVal(ok), 'ValueError only for a wrong output length, and before any write', key=key + ':reject', info=info)
        return
    except IndexError as e:
        c.report('violation', f'cumsum raised IndexError: {e}', key=key + ':raises', info=info)
        return
    if lenout != expect_len:
        c.report('violation', 'output of the wrong length was accepted', key=key + ':accept', info=info)
        return
    vals = arr if isinstance(arr, list) else common.cells(arr)
    part = [off]
    for v in vals:
        part.append(part[-1] + v)
    sel = ([part[0]] if initial else []) + part[1:N] + ([part[N]] if final and N > 0 else [])
    if N == 0:
        sel = [part[0]] if (initial and final) else []
    got = common.cells(out)
    assert len(sel) == len(got)
    cond = [core._b(core.lift(tot) == core.lift(part[N]))]
    for j, (g, s) in enumerate(zip(got, sel)):
        if g is arrays.UNINIT:
            c.report('violation', f'out[{j}] left unwritten', key=key + ':unwritten', info=info)
            return
        cond.append(core._b(core.lift(g) == core.lift(s)))
    c.prove(z3.And(cond), 'out holds exactly the selected partial sums and the total is returned', key=key + ':values', info=info)
    wc = common.wcounts(out)
    c.prove(z3.BoolVal(bool((wc == 1).all())), 'every output cell written exactly once', key=key + ':once', info=info)


def run(item):
    N, pairing = item['N'], item['pairing']
    tot = None
    for initial in (False, True):
        for final in (False, True):
            for lenout in range(max(0, N - 2), N + 3):
                r, _ = common.run_paths(lambda: _body(N, initial, final, lenout, pairing), cov_funcs=FUNCS)
                if tot is None:
                    tot = r
                else:
                    for k in ('paths', 'queries', 'solver_s', 'proved', 'reached'):
                        tot[k] += r[k]
                    tot['events'] += r['events']
                    tot['samples'] = (tot['samples'] + r['samples'])[:3]
                    harness.merge_cov(tot['cov'], r['cov'])
    return tot


def finding_key(e):
    # one finding per (N==0 / N>0, kind of failure); array dtype pairing is not part of the key
    k = e['key'].split(':')
    return ':'.join(k[:2] + [e['kind'] if e['kind'] == 'oob' else k[-1]])


def validate(tier):
    """Engine in concrete mode vs the compiled kernel (translator validation), incl. the
    repo's own test inputs."""
    n = 0
    cases = [([1, 2, 3, 4], False, True, 0), ([1, 2, 3, 4], True, False, 0), ([1, 2, 3, 4], True, True, 0),
             ([1, 2, 3, 4], False, False, 0), ([1, 2, 3, 4], False, True, 10), ([5], True, True, 3), ([7, -2], False, True, -1)]
    for vals, initial, final, off in cases:
        a = real_np.array(vals, dtype=real_np.int64)
        o = real_np.zeros(len(vals) - 1 + initial + final, dtype=real_np.int64)
        t = util.cumsum(a, o, initial, final, off)

        def body():
            sa = arrays.as_sarr(a)
            so = SArr((len(o),), 'i8')
            st = R.cumsum(sa, so, initial, final, off)
            return [int(x) for x in common.cells(so)], int(st)
        res = core.explore(body)
        assert len(res) == 1 and res[0].ret == (o.tolist(), int(t)), (vals, initial, final, off, res[0].ret, o, t)
        n += 1
    return n


def replay(e, path):
    i = e['info'].get('case', e['info'])
    N, lenout = i.get('N', 0), i.get('len_out', 0)
    m = e.get('model', {})
    vals = [int(common.fr(m.get(f'arr[{k}]', 0))) for k in range(N)]
    off = int(common.fr(m.get('offset', 0)))
    body = f'''
os.environ['NUMBA_BOUNDSCHECK'] = '1'
from abacusnbody.util import cumsum
vals, initial, final, off, lenout = {vals!r}, {i.get("initial")!r}, {i.get("final")!r}, {off!r}, {lenout!r}
arr = np.array(vals, dtype=np.int64)
if {i.get("pairing")!r}.startswith('list'):
    import numba.typed
    arr = vals
bad = []
# (1) interpreted body: numpy raises IndexError on the out-of-bounds element access
try:
    out = np.full(lenout, -777, dtype=np.int64)
    cumsum.py_func(arr, out, initial, final, off)
except IndexError as ex:
    bad.append(f'py_func: IndexError: {{ex}}')
except ValueError as ex:
    if lenout == len(vals) - 1 + int(initial) + int(final):
        bad.append(f'py_func: ValueError on a correct length: {{ex}}')
# (2) compiled kernel with NUMBA_BOUNDSCHECK=1
try:
    out = np.full(lenout, -777, dtype=np.int64)
    tot = cumsum(arr, out, initial, final, off)
    part = np.concatenate([[off], off + np.cumsum(arr)])
    sel = ([part[0]] if initial else []) + list(part[1:len(vals)]) + ([part[-1]] if final and len(vals) > 0 else [])
    if len(vals) == 0:
        sel = [part[0]] if (initial and final) else []
    if list(out) != [int(x) for x in sel] or int(tot) != int(part[-1]):
        bad.append(f'compiled: out={{list(out)}} total={{tot}} expected out={{sel}} total={{part[-1]}}')
except IndexError as ex:
    bad.append(f'compiled (NUMBA_BOUNDSCHECK=1): IndexError: {{ex}}')
except ValueError as ex:
    if lenout == len(vals) - 1 + int(initial) + int(final):
        bad.append(f'compiled: ValueError on a correct length: {{ex}}')
print('cumsum(arr=%r, len(out)=%d, initial=%r, final=%r, offset=%r)' % (vals, lenout, initial, final, off))
for b in bad: print('  ', b)
sys.exit(1 if bad else 0)
'''
    return common.write_replay(path, body, env={'NUMBA_BOUNDSCHECK': '1'})


if __name__ == '__main__':
    sys.exit(harness.main(__import__('checks.c19', fromlist=['x'])))
