"""C20 -- pipe_asdf emits count, width and the concatenated raw bytes per field.

The real unpack_to_pipe body runs with os.path.isfile, asdf.open and the pipe stubbed.  File
existence and per-(file, field) presence are free symbolic booleans (every pattern of missing
files / fields is a path); the pipe records every object written (numpy scalar type and
value, array identity and bytes)."""
import sys
import itertools
import types
import numpy as real_np
import z3
from checks import common
common.fake_modules()
from checks.common import Sym, ctx, core, rebind, harness
import abacusnbody.data.pipe_asdf as pa

ID = 'C20'
BOUNDS = {
    'quick': 'files 1..3 x fields 1..2 (request order both ways); per-file existence and per-(file,field) presence free booleans; '
             'column shapes from {(0,), (3,), (2,3), (1,2,2)} with the leading length varying across files; item widths 1,2,4,8,16; tty on/off'
             '; also: file contributions around every integer constant >= 256 found in the current source of unpack_to_pipe / its module (none on the present tree)',
    'thorough': 'quick plus 3 fields and all leading-length patterns from {0,1,3}',
}
OUTSIDE = 'decompression inside asdf (C14); the command-line parser; array element values (payloads are compared as bytes of concrete arrays)'
STUBS = ['os.path.isfile: free boolean per file', 'asdf.open: in-memory tree; "field in tree" is a free boolean per (file, field)',
         'pipe: recorder (isatty, write, close)']
ASSUMPTIONS = ['a field has the same dtype and trailing shape in every file (concatenable)']
MUST_COVER = {'abacusnbody.data.pipe_asdf.unpack_to_pipe': 8}      # the verbose timing prints

FUNCS = [pa.unpack_to_pipe]


def sources():
    return rebind.source_hash(*FUNCS)


class Pipe:
    def __init__(self, tty):
        self.tty, self.log, self.closed = tty, [], 0

    def isatty(self):
        return self.tty

    def write(self, x):
        self.log.append(x)

    def close(self):
        self.closed += 1


class Col:
    def __init__(self, arr):
        self.arr = arr
        self.shape = arr.shape
        self.dtype = arr.dtype

    def __getitem__(self, k):
        return self.arr[k]


class Tree(dict):
    def __init__(self, cols, present):
        super().__init__(cols)
        self.present = present

    def __contains__(self, k):
        return self.present[k]      # Sym bool -> the `in` operator forks

    def __getitem__(self, k):
        if not bool(self.present[k]):
            raise KeyError(k)
        return dict.__getitem__(self, k)

    # every way of listing the tree agrees with the (symbolic) presence flags: iteration forks on each flag
    def __iter__(self):
        return iter([k for k in dict.keys(self) if bool(self.present[k])])

    def keys(self):
        return list(iter(self))

    def items(self):
        return [(k, dict.__getitem__(self, k)) for k in self]

    def values(self):
        return [dict.__getitem__(self, k) for k in self]

    def __len__(self):
        return len(list(iter(self)))

    def get(self, k, default=None):
        return dict.__getitem__(self, k) if bool(self.present[k]) else default


class AF:
    def __init__(self, uri, cols, present):
        self.uri = uri
        self.tree = {'data': Tree(cols, present)}

    def __getitem__(self, k):
        return self.tree[k]


DT = {1: real_np.uint8, 2: real_np.int16, 4: real_np.float32, 8: real_np.float64, 16: real_np.complex128}


def body(nfiles, fields, shapes, widths, tty):
    c = ctx()
    case = dict(nfiles=nfiles, fields=list(fields), shapes={k: [list(s) for s in v] for k, v in shapes.items()}, widths=widths, tty=tty)
    c.extra['case'] = case
    c.extra['keyprefix'] = 'pipe:'
    fns = [f'/data/file{i}.asdf' for i in range(nfiles)]
    exists = {fn: Sym(c.input(f'isfile[{i}]', z3.BoolSort())) for i, fn in enumerate(fns)}
    rng = real_np.random.default_rng(3)
    files = {}
    present = {}
    for i, fn in enumerate(fns):
        cols = {}
        pres = {}
        for f in set(fields) | {'other'}:
            shp = shapes.get(f, [(2,)] * nfiles)[i]
            w = widths.get(f, 4)
            cols[f] = Col((rng.random(shp) * 100).astype(DT[w]))
            pres[f] = Sym(c.input(f'has[{i},{f}]', z3.BoolSort()))
        files[fn] = AF(fn, cols, pres)
        present[fn] = pres
    opened = []

    class FakeAsdf:
        @staticmethod
        def open(fn, **kw):
            opened.append(fn)
            return files[fn]
    G = dict(pa.unpack_to_pipe.__globals__)
    G.update(isfile=lambda fn: exists[fn], asdf=FakeAsdf)
    f = types.FunctionType(pa.unpack_to_pipe.__code__, G, 'unpack_to_pipe', pa.unpack_to_pipe.__defaults__)
    pipe = Pipe(tty)
    err = None
    try:
        f(fns, list(fields), pipe=pipe, verbose=False)
    except (FileNotFoundError, ValueError, RuntimeError, KeyError) as e:
        err = e
    # which inputs are missing on this path?
    def known(b):
        r, _ = c._check([z3.Not(b.e)], core.FORK_TIMEOUT_MS)
        if r == 'unsat':
            return True
        r2, _ = c._check([b.e], core.FORK_TIMEOUT_MS)
        return False if r2 == 'unsat' else None
    ex = [known(exists[fn]) for fn in fns]
    c.extra['sample'] = dict(case, exists=ex, error=type(err).__name__ if err else None, writes=len(pipe.log))
    if tty:
        c.prove(z3.BoolVal(isinstance(err, RuntimeError) and not pipe.log), 'a terminal as output is refused before any byte is written', key='pipe:tty')
        return
    missing_file = any(v is False for v in ex)
    missing_field = False
    if not missing_file:
        for fn in fns:
            for fld in fields:
                if known(present[fn][fld]) is False:
                    missing_field = True
    if missing_file or missing_field:
        c.prove(z3.BoolVal(err is not None and not pipe.log and pipe.closed == 0),
                'a missing file or field is reported as an error before any byte is written', key='pipe:missing')
        return
    if err is not None:
        c.report('violation', f'raised {type(err).__name__} although every file and field is present', key='pipe:spurious-error')
        return
    # framing oracle
    exp = []
    for fld in fields:
        cnt = sum(int(real_np.prod(dict.__getitem__(files[fn].tree['data'], fld).shape)) for fn in fns)
        exp.append(('count', cnt))
        exp.append(('width', dict.__getitem__(files[fns[0]].tree['data'], fld).dtype.itemsize))
        for fn in fns:
            exp.append(('payload', dict.__getitem__(files[fn].tree['data'], fld).arr))
    # the property is about the byte STREAM (how the bytes are split into write() calls is the implementation's business)
    def tob(x):
        if isinstance(x, (bytes, bytearray, memoryview)):
            return bytes(x)
        return real_np.asarray(x).tobytes()
    got_stream = b''.join(tob(x) for x in pipe.log)
    exp_stream = b''.join(real_np.int64(v).tobytes() if kind == 'count' else real_np.int32(v).tobytes() if kind == 'width' else v.tobytes() for kind, v in exp)
    ok = got_stream == exp_stream and pipe.closed == 1
    detail = ''
    if not ok:
        k = next((i for i, (a, b) in enumerate(zip(got_stream, exp_stream)) if a != b), min(len(got_stream), len(exp_stream)))
        detail = f'{len(got_stream)} bytes written, {len(exp_stream)} expected; first difference at byte {k}; pipe closed {pipe.closed}x'
    c.prove(z3.BoolVal(ok), 'per field, in request order: int64 element count, int32 item width, then each file\'s raw array bytes in argument order',
            key='pipe:framing', info=dict(detail=detail))
    # count x width = payload bytes, parsed back from what was actually written
    pos, total_ok = 0, True
    for fld in fields:
        if pos + 12 > len(got_stream):
            total_ok = False
            break
        cnt = int(real_np.frombuffer(got_stream[pos:pos + 8], dtype=real_np.int64)[0])
        wid = int(real_np.frombuffer(got_stream[pos + 8:pos + 12], dtype=real_np.int32)[0])
        pos += 12 + cnt * wid
    total_ok = total_ok and pos == len(got_stream)
    c.prove(z3.BoolVal(total_ok), 'count x width equals the number of payload bytes that follow', key='pipe:bytes')


SHAPESETS = [((0,), (3,), (2,)), ((3,), (0,), (1,)), ((2, 3), (0, 3), (1, 3)), ((1, 2, 2), (2, 2, 2), (0, 2, 2)), ((0,), (0,), (0,))]


def items(tier, seed):
    out = []
    for nfiles in (1, 2, 3):
        for flds in (('a',), ('a', 'b'), ('b', 'a')) + ((('a', 'b', 'c'),) if tier == 'thorough' else ()):
            for si, ss in enumerate(SHAPESETS):
                for wi, ws in enumerate(((1, 8, 2), (4, 16, 8), (2, 4, 1))):
                    if tier == 'quick' and (si + wi + nfiles) % 3 and not (si == 0 and wi == 0):
                        continue
                    shapes = {f: [SHAPESETS[(si + k) % len(SHAPESETS)][i] for i in range(nfiles)] for k, f in enumerate(sorted(set(flds)))}
                    widths = {f: ws[k % 3] for k, f in enumerate(sorted(set(flds)))}
                    out.append(dict(name=f'files={nfiles}/fields={"".join(flds)}/shapes={si}/widths={wi}', nfiles=nfiles, fields=flds,
                                    shapes=shapes, widths=widths, tty=False))
    out.append(dict(name='tty', nfiles=1, fields=('a',), shapes={'a': [(3,)]}, widths={'a': 4}, tty=True))
    # size thresholds: every integer constant >= 256 that the CURRENT source of unpack_to_pipe (or its module) contains is taken as a
    # byte / element threshold, and file contributions just below, at and above it are mixed with tiny ones in every order
    for K in code_thresholds():
        for w in (1, 8):
            big = max(1, K // w)
            for order in (((3,), (big,), (2,)), ((big,), (3,), (big - 1,)), ((2,), (big + 1,), (0,))):
                out.append(dict(name=f'threshold={K}/width={w}/shapes={"-".join(str(x[0]) for x in order)}', nfiles=3, fields=('a', 'b'),
                                shapes={'a': list(order), 'b': [(1,), (2,), (0,)]}, widths={'a': w, 'b': 4}, tty=False))
    return out


def code_thresholds():
    acc = set()

    def consts(code):
        for k in code.co_consts:
            if isinstance(k, int) and not isinstance(k, bool):
                acc.add(k)
            elif hasattr(k, 'co_consts'):
                consts(k)
    consts(pa.unpack_to_pipe.__code__)
    for k, v in vars(pa).items():
        if isinstance(v, int) and not isinstance(v, bool) and not k.startswith('__'):
            acc.add(v)
    return sorted(k for k in acc if 256 <= k <= (1 << 22))


def run(item):
    shapes = {k: [tuple(s) for s in v] for k, v in item['shapes'].items()}
    return common.run_paths(lambda: body(item['nfiles'], tuple(item['fields']), shapes, item['widths'], item['tty']), cov_funcs=FUNCS)[0]


def validate(tier):
    """real unpack_to_pipe on real (uncompressed) ASDF files written to a scratch directory,
    read back through a real pipe object"""
    import asdf
    import io
    import tempfile
    import os
    n = 0
    with tempfile.TemporaryDirectory() as d:
        fns = []
        arrs = []
        for i in range(2):
            a = real_np.arange(3 * (i + 1), dtype=real_np.float32).reshape(-1, 3)
            b = real_np.arange(i + 2, dtype=real_np.int64)
            fn = os.path.join(d, f'f{i}.asdf')
            asdf.AsdfFile({'data': {'a': a, 'b': b}}).write_to(fn)
            fns.append(fn)
            arrs.append((a, b))

        class P(io.BytesIO):
            def isatty(self):
                return False

            def close(self):
                self.final = self.getvalue()
        p = P()
        pa.unpack_to_pipe(fns, ['b', 'a'], pipe=p, verbose=False)
        exp = b''
        for k, dt in ((1, real_np.int64), (0, real_np.float32)):
            cnt = sum(x[k].size for x in arrs)
            exp += real_np.int64(cnt).tobytes() + real_np.int32(real_np.dtype(dt).itemsize).tobytes() + b''.join(x[k].tobytes() for x in arrs)
        assert p.final == exp
        n += 1
    return n


def replay(e, path):
    i = e['info'].get('case', {})
    m = e.get('model', {})
    body_ = f'''
import asdf, io, tempfile
import abacusnbody.data.pipe_asdf as pa
m = {m!r}
case = {i!r}
DT = {{1: np.uint8, 2: np.int16, 4: np.float32, 8: np.float64, 16: np.complex128}}
bad = []
with tempfile.TemporaryDirectory() as d:
    fns, cols = [], []
    for i in range(case['nfiles']):
        tree = {{}}
        for f in sorted(set(case['fields'])):
            if m.get(f'has[{{i}},{{f}}]', True):
                tree[f] = (np.arange(int(np.prod(case['shapes'][f][i])), dtype=np.float64) + i).astype(DT[case['widths'][f]]).reshape(case['shapes'][f][i])
        fn = os.path.join(d, f'file{{i}}.asdf')
        if m.get(f'isfile[{{i}}]', True):
            asdf.AsdfFile({{'data': tree}}).write_to(fn)
        fns.append(fn); cols.append(tree)
    class P(io.BytesIO):
        tty = case['tty']
        def isatty(self): return self.tty
        def close(self): self.final = self.getvalue()
    p = P(); err = None
    try:
        pa.unpack_to_pipe(fns, list(case['fields']), pipe=p, verbose=False)
    except Exception as ex:
        err = ex
    complete = all(m.get(f'isfile[{{i}}]', True) and all(m.get(f'has[{{i}},{{f}}]', True) for f in case['fields']) for i in range(case['nfiles']))
    if case['tty'] or not complete:
        if err is None or p.getvalue(): bad.append(f'expected an error before any byte; error={{err!r}}, bytes written={{len(p.getvalue())}}')
    elif err is not None:
        bad.append(f'raised {{err!r}} with all inputs present')
    else:
        exp = b''
        for f in case['fields']:
            exp += np.int64(sum(c[f].size for c in cols)).tobytes() + np.int32(cols[0][f].dtype.itemsize).tobytes() + b''.join(c[f].tobytes() for c in cols)
        if getattr(p, 'final', None) != exp: bad.append(f'stream of {{len(getattr(p, "final", b""))}} bytes differs from the expected {{len(exp)}} bytes')
print('case', case, {{k: v for k, v in m.items()}})
for b_ in bad: print('  ', b_)
sys.exit(1 if bad else 0)
'''
    return common.write_replay(path, body_)


if __name__ == '__main__':
    sys.exit(harness.main(__import__('checks.c20', fromlist=['x'])))
