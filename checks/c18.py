"""C18 -- every eigenvector code decodes to an orthonormal triad with fixed handedness.

The real _unpack_euler16 body runs on a one-element array holding a symbolic code that is
confined, per work item, to one cap (12) and one ring `it` of the in-cap grid (11); within that
the in-ring cell and the azimuth bin stay symbolic integers.  cos/sin of the azimuth are two
fresh reals with cos^2 + sin^2 = 1 and sin > 0 (the azimuth lies in (0, pi)); square roots are
non-negative witnesses.  The triad identities are then nonlinear real-arithmetic queries that
hold for the whole family at once."""
import sys
import types
import numpy as real_np
import z3
from checks import common
common.fake_modules()
from checks.common import Sym, SArr, ctx, core, arrays, rebind, harness
from symnb import npshim
import abacusnbody.data.compaso_halo_catalog as chc

ID = 'C18'
BOUNDS = {
    'quick': 'all 12 caps, each with one ring it = 4*cap mod 11 (every ring 0..10 occurs); pairwise distinct cap signatures; in-ring cell ir in [0, 2 it] and azimuth bin in [0, 45) symbolic integers '
             '(so every valid code of those (cap, ring) families); obligations: unit minor/middle/major, pairwise orthogonality, middle = minor x major'
             '; also: numpy uint16 array semantics with wrap monitor',
    'thorough': 'all 12 caps x all 11 rings: every one of the 65340 valid codes belongs to exactly one family',
}
OUTSIDE = 'Distinctness is decided only between caps (pairwise different signatures of the major axis); NOT decided (not claimed): distinctness of codes within one cap, and that the major axes cover all directions to ~4 degrees -- a ' \
          'forall-direction/exists-code statement over transcendental geometry, outside this technique; float64 rounding; numeric values of cos/sin'
STUBS = ['np.cos / np.sin of the azimuth: fresh reals c, s with c^2 + s^2 = 1, s > 0', 'np.sqrt, np.linalg.norm: non-negative root witnesses',
         'np.floor: fresh integer k with k <= x < k+1; the ring index the decoder computes (np.floor(np.sqrt(b)) or np.searchsorted in a table) '
         'is proved equal to the ring of the work item (key euler:ring) and then replaced by that constant']
ASSUMPTIONS = ['floats are reals', 'code in [0, 65340)']
MUST_COVER = {'abacusnbody.data.compaso_halo_catalog._unpack_euler16': 0}
FUNCS = [chc._unpack_euler16]
REPLAY_UNKNOWN = True     # unsettled (satisfiable-looking) nonlinear queries are handed to the replay over the whole code family


def sources():
    return rebind.source_hash(*FUNCS)


def make_ns():
    d = dict(rebind.NP.__dict__)
    d.pop('_name', None)

    def ring_observed(values, dt):
        """The decoder's own ring index (however it computes it: floor(sqrt(b)) or a table lookup) is observed here: the
        solver must show that it equals the ring of the work item for every cell b in [it^2, (it+1)^2) -- i.e. that it is
        floor(sqrt(b)) -- and only then is it replaced by the constant (which keeps the later queries polynomial)."""
        c = ctx()
        it = c.extra['ring']
        src = real_np.ndarray.view(npshim.asarray(values), real_np.ndarray)
        o = real_np.empty(src.shape, dtype=object)
        for idx in real_np.ndindex(*src.shape):
            v = core.lift(src[idx])
            c.prove(v.e == it, 'the ring index computed by the decoder is floor(sqrt(cell)): cell it^2 + ir, 0 <= ir <= 2 it, belongs to ring it',
                    key='euler:ring')
            o[idx] = float(it) if dt == 'f8' else int(it)
        return arrays.as_sarr(o, dt)

    def floor_conc(x):
        """np.floor of a (symbolic) real: a fresh integer k with k <= x < k + 1; then observed as the ring index."""
        c = ctx()
        src = real_np.ndarray.view(npshim.asarray(x), real_np.ndarray)
        o = real_np.empty(src.shape, dtype=object)
        for idx in real_np.ndindex(*src.shape):
            xr = core.lift(src[idx]).as_real()
            k = c.fresh(z3.IntSort(), 'floor')
            c.add(z3.And(z3.ToReal(k) <= xr, xr < z3.ToReal(k) + 1))
            o[idx] = Sym(k)
        return ring_observed(o, 'f8')

    def searchsorted_ring(a, v, side='left'):
        return ring_observed(npshim.searchsorted(a, v, side), 'i8')

    def trig(which):
        def f(x):
            c = ctx()
            x = npshim.asarray(x)
            o = real_np.empty(x.shape, dtype=object)
            src = real_np.ndarray.view(x, real_np.ndarray)
            memo = c.extra.setdefault('trig', {})
            for idx in real_np.ndindex(*x.shape):
                a = core.lift(src[idx]).as_real()
                key = a.get_id()
                if key not in memo:
                    cs, sn = c.fresh(z3.RealSort(), 'cos'), c.fresh(z3.RealSort(), 'sin')
                    c.add(z3.And(cs * cs + sn * sn == 1, sn > 0))
                    memo[key] = (a, cs, sn)
                o[idx] = Sym(memo[key][1 if which == 'cos' else 2])
            return arrays.as_sarr(o, 'f8')
        return f

    def norm(a, axis=None):
        a = npshim.asarray(a)
        if axis != 1 or a.ndim != 2:
            raise core.ModelGap('np.linalg.norm other than row norms')
        o = SArr((a.shape[0],), 'f8', fill=None)
        src = real_np.ndarray.view(a, real_np.ndarray)
        for i in range(a.shape[0]):
            tot = 0.0
            for j in range(a.shape[1]):
                tot = tot + src[i, j] * src[i, j]
            real_np.ndarray.__setitem__(o, i, core.sym_sqrt(core.lift(tot)))
        return o
    d.update(floor=floor_conc, searchsorted=searchsorted_ring, cos=trig('cos'), sin=trig('sin'), linalg=types.SimpleNamespace(norm=norm))
    return npshim._Namespace('np', d)


R = rebind.Rebound(chc, overrides=dict(np=make_ns()))


def body(cap, it):
    c = ctx()
    case = dict(cap=cap, ring=it)
    c.extra['case'] = case
    c.extra['keyprefix'] = 'euler:'
    c.extra['recip_witnesses'] = True
    c.extra['ring'] = it
    c.extra['numpy_int_semantics'] = True       # plain numpy code on a uint16 column: narrow integer arrays keep their dtype and wrap
    c.extra['sample'] = case
    code = Sym(c.input('code', z3.IntSort()))
    ir = c.input('ir', z3.IntSort())
    iaz = c.input('iaz', z3.IntSort())
    c.assume(z3.And(ir >= 0, ir <= 2 * it, iaz >= 0, iaz < 45, code.e == ((cap * 121 + it * it + ir) * 45 + iaz)))
    arr = SArr((1,), 'u2', fill=None, name='codes')
    real_np.ndarray.__setitem__(arr, 0, code)
    minor, middle, major = R._unpack_euler16(arr)
    v = lambda a: [core.lift(common.cell(a, 0, j)).as_real() for j in range(3)]
    mn, md, mj = v(minor), v(middle), v(major)
    dot = lambda a, b: a[0] * b[0] + a[1] * b[1] + a[2] * b[2]
    cross = [mn[1] * mj[2] - mn[2] * mj[1], mn[2] * mj[0] - mn[0] * mj[2], mn[0] * mj[1] - mn[1] * mj[0]]
    c.prove(dot(mj, mj) == 1, 'major axis has unit norm', key='euler:unit-major')
    # cap signature: which component of the major axis is the largest, which the second, and the sign of the second.
    # (Within a cap the decoder places zz > |yy| > |xx| with yy of fixed sign; the 12 caps must give 12 different signatures,
    #  otherwise two caps decode to the same axes -- checked across items in finalize().)
    # Cap signature.  Before the per-cap table the decoder computes zz = 1/sqrt(1+xx^2+yy^2) > 0, yy = t*zz (t > 0 the
    # ring's latitude) and xx = r*t*zz (r in (-1,1) the in-ring cell, the only place where `ir` occurs); the table only
    # permutes them and flips the sign of yy.  Read the placement off the terms (zz: the component that does not mention
    # ir and is not yy; xx: the one that mentions ir, or is literally 0 on ring 0), let the solver fix the signs, and check
    # |r| < 1 (solver) and t^2 < 1 (exact rational arithmetic on the ring's constants) so that zz > |yy| > |xx|.  The 12
    # caps must then have 12 different signatures (finalize), otherwise two caps decode to the same axes.
    def mentions_ir(e):
        acc = set()
        def walk(x):
            if z3.is_const(x) and x.decl().kind() == z3.Z3_OP_UNINTERPRETED:
                acc.add(x.decl().name())
            for ch in x.children():
                walk(ch)
        walk(e)
        return 'ir' in acc or 'code' in acc
    simp = [z3.simplify(x) for x in mj]
    xs = [j for j in range(3) if mentions_ir(simp[j]) or (z3.is_rational_value(simp[j]) and simp[j].numerator_as_long() == 0)]
    rest = [j for j in range(3) if j not in xs]
    sig = None
    if len(xs) == 1 and len(rest) == 2:
        # of the two remaining components one is +zz (a bare positive witness), the other +-t*zz
        smp = chc._unpack_euler16(real_np.array([(cap * 121 + it * it + min(1, 2 * it)) * 45 + 7], dtype=real_np.uint16))[2][0]
        a_, b_ = sorted(rest, key=lambda j: -abs(smp[j]))
        sgn = 1 if smp[b_] > 0 else -1
        ok1 = c.prove(mj[a_] > 0, 'the largest component of the major axis is positive throughout the family', key='euler:signature')
        ok2 = c.prove((mj[b_] > 0) if sgn > 0 else (mj[b_] < 0), 'the second component keeps its sign throughout the family', key='euler:signature')
        ok3 = c.prove(z3.And(2 * ir + 1 > 0, 2 * ir + 1 < 2 * (2 * it + 1)), 'the in-ring coordinate r = (ir+1/2)/(it+1/2) - 1 lies strictly inside (-1, 1)', key='euler:signature')
        import fractions
        t0 = fractions.Fraction(2 * it + 1, 22) / core._frac(chc.EULER_NORM)
        t2 = t0 * t0 * (2 - t0 * t0) / ((1 - t0 * t0) ** 2)
        ok4 = c.prove(z3.BoolVal(0 < t2 < 1), 'the ring latitude satisfies 0 < t^2 < 1 (so zz > |yy| > |xx|)', key='euler:signature')
        if ok1 and ok2 and ok3 and ok4:
            sig = (a_, b_, sgn)
    else:
        c.report('violation', f'cannot identify the xx component of the major axis (components mentioning the in-ring cell: {xs})', key='euler:signature')
    c.extra['sample'] = dict(case, signature=sig)

    c.prove(dot(mn, mn) == 1, 'minor axis has unit norm', key='euler:unit-minor')
    c.prove(dot(mn, mj) == 0, 'minor is orthogonal to major', key='euler:orth-minor-major')
    # middle is built as the normalised cross product: handedness and the remaining identities follow from
    # middle = (minor x major) / |minor x major| once |minor x major| = 1, which is implied by the two facts above
    k = c.fresh(z3.RealSort(), 'k')
    c.prove(z3.And([md[j] * core.sym_sqrt(core.lift(Sym(dot(cross, cross)))).as_real() == cross[j] for j in range(3)]),
            'middle is the normalised cross product minor x major (fixed handedness)', key='euler:handed')
    # Lagrange: |a x b|^2 = |a|^2 |b|^2 - (a.b)^2 = 1 for unit orthogonal a, b  (polynomial identity, decided by z3)
    a = [c.fresh(z3.RealSort(), f'a{j}') for j in range(3)]
    b = [c.fresh(z3.RealSort(), f'b{j}') for j in range(3)]
    cr = [a[1] * b[2] - a[2] * b[1], a[2] * b[0] - a[0] * b[2], a[0] * b[1] - a[1] * b[0]]
    c.prove(dot(cr, cr) == dot(a, a) * dot(b, b) - dot(a, b) * dot(a, b), 'Lagrange identity |a x b|^2 = |a|^2|b|^2 - (a.b)^2', key='euler:lagrange')
    c.prove(z3.And(dot(cr, a) == 0, dot(cr, b) == 0), 'a x b is orthogonal to a and to b', key='euler:lagrange')


def finalize(results):
    """Different caps must decode to different major axes: their solver-derived signatures must be pairwise distinct
    (and all rings of one cap must agree)."""
    sigs = {}
    for r in results:
        for smp in r.get('samples', []):
            if isinstance(smp, dict) and smp.get('signature') is not None:
                sigs.setdefault(smp['cap'], set()).add(tuple(smp['signature']))
    events, proved = [], 0
    bycap = {}
    for cap, ss in sorted(sigs.items()):
        if len(ss) != 1:
            events.append(dict(kind='violation', what=f'cap {cap} has different signatures on different rings: {sorted(ss)}', key='euler:distinct-caps', model={},
                               info=dict(case=dict(cap=cap, ring=0, other=cap))))
            continue
        sg = next(iter(ss))
        if sg in bycap:
            events.append(dict(kind='violation', what=f'caps {bycap[sg]} and {cap} decode to major axes with the same signature {sg}: distinct codes give the same triads',
                               key='euler:distinct-caps', model={}, info=dict(case=dict(cap=cap, ring=0, other=bycap[sg]))))
        else:
            bycap[sg] = cap
            proved += 1
    return events, proved


def items(tier, seed):
    if tier == 'quick':
        return [dict(name=f'cap={cap:02d}/ring={(cap * 4) % 11:02d}', cap=cap, it=(cap * 4) % 11) for cap in range(12)]
    return [dict(name=f'cap={cap:02d}/ring={it:02d}', cap=cap, it=it) for cap in range(12) for it in range(11)]


def run(item):
    return common.run_paths(lambda: body(item['cap'], item['it']), cov_funcs=FUNCS, max_paths=2000)[0]


def validate(tier):
    """engine in concrete mode vs the real (pure numpy) function on boundary codes of every cap"""
    import math
    n = 0
    codes = [0, 44, 45, 5444, 5445, 65339, 32000, 12345, 54321] + [cap * 5445 + 2722 for cap in range(12)]
    ref = chc._unpack_euler16(real_np.array(codes, dtype=real_np.uint16))
    d = dict(rebind.NP.__dict__)
    d.pop('_name', None)
    conc = lambda f: (lambda x: arrays.as_sarr(real_np.vectorize(f, otypes=[object])(real_np.ndarray.view(npshim.asarray(x), real_np.ndarray)), 'f8'))
    d.update(cos=conc(math.cos), sin=conc(math.sin), sqrt=conc(math.sqrt), floor=conc(lambda v: float(math.floor(v))),
             linalg=types.SimpleNamespace(norm=lambda a, axis=None: arrays.as_sarr(real_np.array([math.sqrt(sum(float(x) ** 2 for x in row)) for row in real_np.ndarray.view(a, real_np.ndarray)]), 'f8')))
    Rc = rebind.Rebound(chc, overrides=dict(np=npshim._Namespace('np', d)))
    for i, code in enumerate(codes):
        def b():
            ctx().extra['numpy_int_semantics'] = True
            a = SArr((1,), 'u2', fill=None)
            real_np.ndarray.__setitem__(a, 0, int(code))
            out = Rc._unpack_euler16(a)
            return [[float(x) for x in common.cells(o)] for o in out]
        res = core.explore(b)
        assert len(res) == 1 and res[0].exc is None, (code, res[0].exc)
        for got, want in zip(res[0].ret, ref):
            assert real_np.allclose(got, want[i], atol=1e-12), (code, got, want[i])
        n += 1
    return n


def replay(e, path):
    i = e['info'].get('case', {})
    m = e.get('model', {})
    body_ = f'''
from abacusnbody.data.compaso_halo_catalog import _unpack_euler16
case = {i!r}
m = {m!r}
cap, it = case['cap'], case['ring']
if 'other' in case:
    allc = np.arange(65340, dtype=np.uint16)
    mn_, md_, mj_ = _unpack_euler16(allc)
    a, b = case['other'], cap
    A = np.round(np.hstack([mn_, md_, mj_])[a * 5445:(a + 1) * 5445], 9); B = np.round(np.hstack([mn_, md_, mj_])[b * 5445:(b + 1) * 5445], 9)
    dup = len(set(map(tuple, A)) & set(map(tuple, B))) if a != b else 0
    ntri = len(set(map(tuple, np.round(np.hstack([mn_, md_, mj_]), 9))))
    print('caps', a, b, 'share', dup, 'triads; distinct triads over all 65340 codes:', ntri)
    sys.exit(1 if (dup or ntri != 65340) else 0)
codes = np.array([(cap * 121 + it * it + ir) * 45 + iaz for ir in range(2 * it + 1) for iaz in range(45)], dtype=np.uint16)
minor, middle, major = _unpack_euler16(codes)
bad = []
# ring placement per the format: the in-cap cell b = it^2 + ir lies on ring it = floor(sqrt(b)), whose latitude fixes the ratio
# of the two largest major-axis components, yy/zz = T(it), and the third is xx = r*yy with r = (ir+1/2)/(it+1/2) - 1 in (-1, 1)
from abacusnbody.data.compaso_halo_catalog import EULER_NORM, EULER_TBIN
t0 = (it + 0.5) / EULER_TBIN / EULER_NORM
T = t0 * np.sqrt(2.0 - t0 * t0) / (1.0 - t0 * t0)
srt = np.sort(np.abs(major), axis=1)
irs = np.repeat(np.arange(2 * it + 1), 45)
dev = np.abs(srt[:, 1] / srt[:, 2] - T)
if not dev.max() < 1e-9: bad.append(f'ring latitude: |yy|/|zz| of the major axis deviates from T(ring {{it}}) = {{T}} by {{dev.max()}} (cell decoded on another ring), e.g. code {{int(codes[np.argmax(dev)])}}')
rdev = np.abs(srt[:, 0] / srt[:, 1] - np.abs((irs + 0.5) / (it + 0.5) - 1.0))
if not rdev.max() < 1e-9: bad.append(f'in-ring coordinate: |xx|/|yy| deviates from |(ir+1/2)/(it+1/2) - 1| by {{rdev.max()}}, e.g. code {{int(codes[np.argmax(rdev)])}}')
def chk(name, arr, want):
    err = np.abs(arr - want).max()
    if not err < 1e-9: bad.append(f'{{name}}: max deviation {{err}} at code {{int(codes[np.argmax(np.abs(arr - want))])}}')
chk('|major|', np.linalg.norm(major, axis=1), 1); chk('|minor|', np.linalg.norm(minor, axis=1), 1); chk('|middle|', np.linalg.norm(middle, axis=1), 1)
chk('minor.major', (minor * major).sum(1), 0); chk('middle.major', (middle * major).sum(1), 0); chk('middle.minor', (middle * minor).sum(1), 0)
chk('middle - minor x major', np.abs(middle - np.cross(minor, major)).max(1), 0)
# the format is defined on integers: the decode must not depend on the integer width the codes are held in (uint16 on disk)
wide = _unpack_euler16(codes.astype(np.int64))
for nm_, a16, a64 in zip(('minor', 'middle', 'major'), (minor, middle, major), wide):
    dev = np.abs(a16 - a64).max()
    if not dev < 1e-9: bad.append(f'{{nm_}} axes decoded from uint16 codes differ from the same codes held as int64 by {{dev}} (narrow-integer wrap-around), e.g. code {{int(codes[np.argmax(np.abs(a16 - a64).max(1))])}}')
ntri = len(set(map(tuple, np.round(np.hstack([minor, middle, major]), 9))))
if ntri != len(codes): bad.append(f'only {{ntri}} distinct triads for {{len(codes)}} distinct codes of the family')
print('family cap', cap, 'ring', it, ':', len(codes), 'codes; solver witness', m.get('code'))
for b_ in bad: print('  ', b_)
sys.exit(1 if bad else 0)
'''
    return common.write_replay(path, body_)


if __name__ == '__main__':
    sys.exit(harness.main(__import__('checks.c18', fromlist=['x'])))
