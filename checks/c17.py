"""C17 -- partition_parallel returns a stripe-ordered permutation of its input.

The real partition_parallel.py_func (per-thread histogram, transposed prefix sum, scatter,
optional in-stripe sort) runs on N particles with free real coordinates in [0, box]; the
stripe of each particle is decided by forking on the code's own key computation."""
import sys
import itertools
import numpy as real_np
import z3
from checks import common
from checks.common import Sym, SArr, ctx, core, arrays, rebind, harness
import abacusnbody.analysis.tsc as tsc

ID = 'C17'
BOUNDS = {
    'quick': 'N in 0..3 particles (free real coordinates in [0,box] inclusive, free weights), npartition in 1..3, nthread in {1,2,5}, '
             'coord in {0,1,2}, weights in {None, given}, sort in {F,T}; IEEE-754 schedule lemma (symnb.fpsched): the per-thread particle '
             'blocks tstart tile [0,N) for EVERY N in [0, 2^31] under float64 arithmetic, nthread in {3,7}',
    'thorough': 'N in 0..4, npartition in 1..4, nthread in {1,2,3,5}, all coord/weights/sort combinations; schedule lemma for nthread 1..16, 32, 64',
}
OUTSIDE = 'float32 evaluation of the key (real model: a coordinate within rounding of a stripe edge may land in the neighbour ' \
          'stripe in floating point); N above the bound'
STUBS = ['argsort: any permutation that sorts its input (contract stub; forks over all such permutations)',
         'schedule lemma: np.linspace as implemented by numba on Float64 terms; element loops recorded as intervals, not iterated']
ASSUMPTIONS = ['floats are reals', 'box > 0', 'coordinates in [0, box] inclusive']
MUST_COVER = {'abacusnbody.analysis.tsc.partition_parallel': 0}

RT = rebind.Rebound(tsc)
FUNCS = [tsc.partition_parallel]


def sources():
    return rebind.source_hash(*FUNCS)


def body(N, npart, nthread, coord, with_w, sort):
    c = ctx()
    case = dict(N=N, npartition=npart, nthread=nthread, coord=coord, weights=with_w, sort=sort)
    c.extra['case'] = case
    c.extra['keyprefix'] = 'partition:'
    c.extra['name_products'] = True
    c.log_access = True
    rebind.NB.reset(8)
    box = Sym(c.input('box', z3.RealSort()))
    c.assume(box.e > 0)
    pos = common.sym_array('pos', (N, 3), 'f4')
    for v in common.cells(pos):
        c.assume(z3.And(v.e >= 0, v.e <= box.e))
    w = common.sym_array('w', (N,), 'f4') if with_w else None
    pos_cells = [[common.cell(pos, i, j) for j in range(3)] for i in range(N)]
    w_cells = [common.cell(w, i) for i in range(N)] if with_w else None
    psort, starts, wsort = RT.partition_parallel(pos, npart, box, weights=w, coord=coord, nthread=nthread, sort=sort)
    st = [int(core.lift(x).e.as_long()) if isinstance(x, Sym) else int(x) for x in common.cells(starts)]
    c.extra['sample'] = dict(case, starts=st)
    ok = True
    # structure
    struct = (len(st) == npart + 1 and st[0] == 0 and st[-1] == N and all(a <= b for a, b in zip(st[:-1], st[1:]))
              and psort.shape == (N, 3) and (wsort is None) == (not with_w) and (wsort is None or wsort.shape == (N,)))
    ok = c.prove(z3.BoolVal(struct), 'starts run from 0 to N, non-decreasing, npartition+1 entries; output shapes', key='partition:starts') and ok
    # inputs untouched
    # (by value: the solver has to exhibit inputs for which a cell of pos / weights holds a different number afterwards)
    def same(a, b):
        if a is arrays.UNINIT or b is arrays.UNINIT:
            return z3.BoolVal(a is b)
        a, b = core.lift(a), core.lift(b)
        return z3.BoolVal(True) if a.e.eq(b.e) else core._b(a == b)
    unt = [same(common.cell(pos, i, j), pos_cells[i][j]) for i in range(N) for j in range(3)]
    if with_w:
        unt += [same(common.cell(w, i), w_cells[i]) for i in range(N)]
    xs0 = [core.lift(pos_cells[i][coord]).as_real() for i in range(N)]      # ties make argsort's order unobservable
    ok = c.prove(z3.Implies(z3.Distinct(*xs0) if (sort and N > 1) else z3.BoolVal(True), z3.And(unt) if unt else z3.BoolVal(True)),
                 'input arrays are not modified', key='partition:input') and ok
    if not struct:
        return
    # permutation with weights attached: rows are the very input terms
    src = []
    for r in range(N):
        row = [common.cell(psort, r, j) for j in range(3)]
        if any(x is arrays.UNINIT for x in row) or (with_w and common.cell(wsort, r) is arrays.UNINIT):
            c.report('violation', f'output row {r} left unwritten', key='partition:unwritten')
            return
        m = [i for i in range(N) if all(row[j] is pos_cells[i][j] for j in range(3))]
        src.append(m[0] if len(m) == 1 else None)
    perm = all(s is not None for s in src) and sorted(src) == list(range(N))
    ok = c.prove(z3.BoolVal(perm), 'output rows are a permutation of the input rows', key='partition:perm') and ok
    if with_w and perm:
        # by value, for inputs whose partition coordinates are pairwise different (so that the witness is observable
        # as a different multiset of (position, weight) rows), then structurally for all inputs
        xs = [core.lift(pos_cells[i][coord]).as_real() for i in range(N)]
        trav = z3.And([same(common.cell(wsort, r), w_cells[src[r]]) for r in range(N)])
        ok = c.prove(z3.Implies(z3.Distinct(*xs) if N > 1 else z3.BoolVal(True), trav), 'weight i travels with position i', key='partition:weights') and ok
        ok = c.prove(z3.BoolVal(all(common.cell(wsort, r) is w_cells[src[r]] for r in range(N))),
                     'weight i travels with position i', key='partition:weights') and ok
    if not sort:
        wc = common.wcounts(psort)
        ok = c.prove(z3.BoolVal(bool((wc == 1).all()) and (not with_w or bool((common.wcounts(wsort) == 1).all()))),
                     'every output cell written exactly once', key='partition:once') and ok
    if not perm:
        return
    # stripe membership: stripe s holds exactly the particles with floor(x*npartition/box) = s, last stripe closed above
    for s in range(npart):
        for r in range(st[s], st[s + 1]):
            x = core.lift(pos_cells[src[r]][coord]).as_real()
            u = core.rdiv(x * npart, box.e)
            memb = z3.And(u >= s, u < s + 1) if s < npart - 1 else (u >= s)
            ok = c.prove(memb, f'row in stripe {s} has floor(x*npartition/box) = {s} (last stripe closed above)', key='partition:stripe') and ok
        if sort:
            for r in range(st[s], st[s + 1] - 1):
                a = core.lift(common.cell(psort, r, coord)).as_real()
                b = core.lift(common.cell(psort, r + 1, coord)).as_real()
                ok = c.prove(a <= b, 'stripe is ordered by the partition coordinate when sort=True', key='partition:sorted') and ok


def items(tier, seed):
    out = []
    if tier == 'quick':
        Ns, nps, nts = [0, 1, 2, 3], [1, 2, 3], [1, 2, 5]
    else:
        Ns, nps, nts = [0, 1, 2, 3, 4], [1, 2, 3, 4], [1, 2, 3, 5]
    for N in Ns:
        for npart in nps:
            for nt in nts:
                combos = []
                for coord in (0, 1, 2):
                    for ww in (False, True):
                        for sort in (False, True):
                            if tier == 'quick' and N == 3 and (coord, ww, sort) not in ((0, True, True), (1, False, False), (2, True, False), (0, False, True)):
                                continue
                            if tier == 'thorough' and N == 4 and (coord, ww, sort) not in ((0, True, True), (1, False, False), (2, True, False)):
                                continue
                            combos.append((coord, ww, sort))
                out.append(dict(name=f'N={N}/npart={npart}/nthread={nt}', N=N, npart=npart, nt=nt, combos=combos))
    out.append(dict(name='N=2/npart=2/nthread=-1(default=8)', N=2, npart=2, nt=-1, combos=[(0, True, False)]))
    from checks import schedlib
    out += schedlib.items(['partition_parallel'], [3, 7] if tier == 'quick' else list(range(1, 17)) + [32, 64])
    return out


def run(item):
    if item.get('kind') == 'fpsched':
        from checks import schedlib
        return schedlib.run(item)
    acc = None
    for coord, ww, sort in item['combos']:
        r = common.run_paths(lambda: body(item['N'], item['npart'], item['nt'], coord, ww, sort), cov_funcs=FUNCS)[0]
        if acc is None:
            acc = r
        else:
            for k in ('paths', 'queries', 'solver_s', 'proved', 'reached'):
                acc[k] += r[k]
            acc['events'] += r['events']
            acc['samples'] = (acc['samples'] + r['samples'])[:3]
            acc['assumptions'] = sorted(set(acc['assumptions']) | set(r['assumptions']))
            harness.merge_cov(acc['cov'], r['cov'])
    return acc


def validate(tier):
    """engine in concrete mode vs the compiled kernel on the repo's own test style inputs"""
    import numba
    n = 0
    rng = real_np.random.default_rng(1)
    for N, npart, nt, sort in ((10, 3, 2, False), (7, 4, 3, True), (0, 2, 2, False), (5, 1, 1, False)):
        box = 10.0
        pos = (rng.random((N, 3)) * box).astype(real_np.float64)
        if N:
            pos[0, 0] = box
        w = rng.random(N)
        ps, st, ws = tsc.partition_parallel(pos, npart, box, weights=w, coord=0, nthread=nt, sort=sort)

        def bodyv():
            rebind.NB.reset(8)
            sp, sw = arrays.as_sarr(pos), arrays.as_sarr(w)
            a, b, cc = RT.partition_parallel(sp, npart, box, weights=sw, coord=0, nthread=nt, sort=sort)
            return [float(x) for x in common.cells(a)], [int(x) for x in common.cells(b)], [float(x) for x in common.cells(cc)]
        res = core.explore(bodyv)
        assert len(res) == 1 and res[0].exc is None, res[0].exc
        a, b, cc = res[0].ret
        assert b == st.tolist(), (b, st)
        # same multiset per stripe (scatter order within a stripe is thread-order dependent but deterministic)
        assert real_np.allclose(a, ps.ravel()) and real_np.allclose(cc, ws), (N, npart, nt, sort)
        n += 1
    return n


def replay(e, path):
    i = e['info'].get('case', {})
    m = e.get('model', {})
    if i.get('kind') == 'fpsched':
        from checks import schedlib
        return schedlib.replay(e, path)
    body_ = f'''
from fractions import Fraction as F
import abacusnbody.analysis.tsc as tsc
m = {m!r}
case = {i!r}
N, npart, nt, coord, sort = case['N'], case['npartition'], case['nthread'], case['coord'], case['sort']
box = float(F(m.get('box', 1)))
pos = np.array([[float(F(m.get(f'pos[{{i}},{{j}}]', 0))) for j in range(3)] for i in range(N)], dtype=np.float64).reshape(N, 3)
w = np.array([float(F(m.get(f'w[{{i}}]', i + 1))) for i in range(N)], dtype=np.float64) if case['weights'] else None
p0 = pos.copy(); w0 = None if w is None else w.copy()
bad = []
for mode in ('py_func', 'compiled'):
    f = tsc.partition_parallel if mode == 'compiled' else tsc.partition_parallel.py_func
    pos = p0.copy(); w = None if w0 is None else w0.copy()
    try:
        ps, st, ws = f(pos, npart, box, weights=w, coord=coord, nthread=nt, sort=sort)
    except Exception as ex:
        bad.append(f'{{mode}}: raised {{type(ex).__name__}}: {{ex}}'); continue
    if not (np.array_equal(pos, p0) and (w is None or np.array_equal(w, w0))): bad.append(f'{{mode}}: input modified')
    if not (len(st) == npart + 1 and st[0] == 0 and st[-1] == N and (np.diff(st) >= 0).all()): bad.append(f'{{mode}}: starts {{st.tolist()}}')
    rows_in = sorted(map(tuple, np.column_stack([p0, w0 if w0 is not None else np.zeros(N)]).tolist()))
    rows_out = sorted(map(tuple, np.column_stack([ps, ws if ws is not None else np.zeros(N)]).tolist()))
    if rows_in != rows_out: bad.append(f'{{mode}}: output is not a permutation of (pos, weight) rows')
    key = np.minimum(np.floor(ps[:, coord] * npart / box).astype(int), npart - 1)
    for s in range(npart):
        seg = slice(int(st[s]), int(st[s + 1]))
        if not (key[seg] == s).all(): bad.append(f'{{mode}}: stripe {{s}} holds keys {{key[seg].tolist()}}')
        if sort and not (np.diff(ps[seg, coord]) >= 0).all(): bad.append(f'{{mode}}: stripe {{s}} not sorted')
print('case', case, 'box', box, 'pos', pos.tolist())
for b in bad: print('  ', b)
sys.exit(1 if bad else 0)
'''
    return common.write_replay(path, body_)


if __name__ == '__main__':
    sys.exit(harness.main(__import__('checks.c17', fromlist=['x'])))
