"""C01 -- each halo row indexes exactly its own subsample particles.

The real constructor (_compute_new_subsample_indices, _load_subsamples, the numba zippers
_unpack_rv_subsamples / _unpack_pid_subsamples, _update_subsample_index_cols, the bit
decoders, util.cumsum) runs on an in-memory catalogue whose particle words are free
bit-vectors and whose layout integers (npstart, npout, *_merge, N_total) are free integers
under the catalogue validity predicate; layout values are concretised by forking where the
code uses them as slice bounds."""
import sys
import itertools
import numpy as real_np
import z3
from checks import common, catlib
from checks.common import Sym, SArr, ctx, core, arrays, rebind, harness
import abacusnbody.data.compaso_halo_catalog as chc

ID = 'C01'
BOUNDS = {
    'quick': '1 superslab (2 for two configurations), halos per slab 0..2, particle file of <= 2 records per subsample, cleaned file of <= 1 '
             'record, layout integers free under the validity predicate (ranges inside their file, ordered, gaps allowed, zero-particle halos, '
             'cleaned-away halos N_total=0); options: cleaned on/off x (A | A+B) x {pos+vel, pid, pid with unpack_bits=[lagr_idx,tagged], '
             'passthrough rvint+packedpid}; light-cone layout (single lc_pid_rv file)'
             '; also: file-list loads with superslab numbers [1,2] and [2] (superslab 0 also on disk)',
    'thorough': 'quick plus uncleaned single-subsample layouts with a particle file of 3 records (cleaned layouts beyond the quick bound were measured at more than half an hour per item and are not registered)',
}
OUTSIDE = 'decoding of the words (C04); file discovery (C03); layouts above the bound (the zipper treats halos independently given the write offsets)'
STUBS = ['asdf.open: in-memory files', 'file discovery replaced by a fixed superslab list', 'astropy Column stores cast to the declared dtype']
ASSUMPTIONS = ['catalogue validity: 0 <= npstart, npstart+npout <= file length, halo ranges ordered and disjoint within a file (gaps allowed), same for merge ranges',
               'integers are mathematical']
MUST_COVER = {'abacusnbody.data.compaso_halo_catalog.CompaSOHaloCatalog._unpack_rv_subsamples': 0,
              'abacusnbody.data.compaso_halo_catalog.CompaSOHaloCatalog._unpack_pid_subsamples': 2,
              'abacusnbody.data.compaso_halo_catalog.CompaSOHaloCatalog._compute_new_subsample_indices': 0,
              'abacusnbody.data.compaso_halo_catalog.CompaSOHaloCatalog._load_subsamples': 0,
              'abacusnbody.data.compaso_halo_catalog.CompaSOHaloCatalog._update_subsample_index_cols': 0}
FUNCS = catlib.FUNCS


def sources():
    return rebind.source_hash(*FUNCS)


def layout(c, prefix, n, flen, names):
    """free integer start/count columns obeying the validity predicate within a file of length flen"""
    st = common.sym_array(f'{prefix}.{names[0]}', (n,), 'i8')
    no = common.sym_array(f'{prefix}.{names[1]}', (n,), 'i8')
    prev = z3.IntVal(0)
    cs = []
    for h in range(n):
        s, o = common.cell(st, h).e, common.cell(no, h).e
        cs += [s >= prev, o >= 0, s + o <= flen]
        prev = s + o
    c.assume_all(cs, 'catalogue validity predicate on particle ranges')
    return st, no


def build(c, slabs, nh, PF, CF, cleaned, ABs, kinds, lc=False):
    catlib.RC.set_global('_unpack_euler16', catlib.EulerStub())
    hdr = catlib.header(c)
    files = {}
    src = {}
    # the directory on "disk" always holds superslab 0 as well: a file-list load of superslabs [1, 2] must
    # pair each particle file with the cleaning file of the same superslab NUMBER, not list position
    for s in sorted(set(slabs) | {0}):
        n = nh.get(s, 1)
        data = {'id': common.sym_array(f's{s}.id', (n,), 'i8'), 'N': common.sym_array(f's{s}.N', (n,), 'i8')}
        cdata = {'N_total': common.sym_array(f'c{s}.N_total', (n,), 'i8')}
        for v in common.cells(cdata['N_total']):
            c.assume(v.e >= 0)
        src[s] = dict(nh=n)
        for AB in ABs:
            st, no = layout(c, f's{s}', n, PF, (f'npstart{AB}', f'npout{AB}'))
            data[f'npstart{AB}'], data[f'npout{AB}'] = st, no
            rv = common.sym_array(f's{s}.rv{AB}', (PF, 3), 'i4', bv=True)
            pp = common.sym_array(f's{s}.pid{AB}', (PF,), 'u8', bv=True)
            files[f'/cat/halo_rv_{AB}/halo_rv_{AB}_{s:03d}.asdf'] = {'header': dict(hdr), 'data': {'rvint': rv}}
            files[f'/cat/halo_pid_{AB}/halo_pid_{AB}_{s:03d}.asdf'] = {'header': dict(hdr), 'data': {'packedpid': pp}}
            src[s][AB] = dict(st=st, no=no, rv=rv, pid=pp)
            if cleaned:
                mst, mno = layout(c, f'c{s}', n, CF, (f'npstart{AB}_merge', f'npout{AB}_merge'))
                cdata[f'npstart{AB}_merge'], cdata[f'npout{AB}_merge'] = mst, mno
                src[s][AB].update(mst=mst, mno=mno)
        files[f'/cat/halo_info/halo_info_{s:03d}.asdf'] = {'header': dict(hdr), 'data': data}
        if cleaned:
            files[f'/clean/cleaned_halo_info/cleaned_halo_info_{s:03d}.asdf'] = {'header': dict(hdr), 'data': cdata}
            tree = {}
            for AB in ABs:
                crv = common.sym_array(f'c{s}.rv{AB}', (CF, 3), 'i4', bv=True)
                cpp = common.sym_array(f'c{s}.pid{AB}', (CF,), 'u8', bv=True)
                tree[f'rvint_{AB}'], tree[f'packedpid_{AB}'] = crv, cpp
                src[s][AB].update(crv=crv, cpid=cpp)
            files[f'/clean/cleaned_rvpid/cleaned_rvpid_{s:03d}.asdf'] = {'header': dict(hdr), 'data': tree}
            src[s]['N_total'] = cdata['N_total']
    catlib.install(files)
    return hdr, src


def rows_of(arr, lo, hi):
    a = real_np.ndarray.view(arr, real_np.ndarray)
    return [a[k] for k in range(lo, hi)]


def body(slabs, nh, PF, CF, cleaned, ABs, mode):
    c = ctx()
    case = dict(slabs=list(slabs), halos=[nh[s] for s in slabs], PF=PF, CF=CF, cleaned=cleaned, AB=''.join(ABs), mode=mode)
    c.extra['case'] = case
    c.extra['keyprefix'] = 'subs:'
    hdr, src = build(c, slabs, nh, PF, CF, cleaned, ABs, mode)
    sub = {k: True for k in ABs}
    kw = {}
    if mode == 'posvel':
        sub.update(pos=True, vel=True)
    elif mode == 'pid':
        sub.update(pid=True)
    elif mode == 'pidbits':
        sub.update(pid=True)
        kw['unpack_bits'] = ['lagr_idx', 'tagged']
    elif mode == 'passthrough':
        sub.update(rvint=True, packedpid=True)
        kw['passthrough'] = True
    fields = ['N'] if mode != 'passthrough' else ['N', 'id']
    cat = catlib.construct('/cat', list(slabs), cleaned, fields=fields, subsamples=sub, **kw)
    # final index columns (concrete on this path)
    H = sum(nh[s] for s in slabs)
    ok = len(cat.halos) == H
    c.prove(z3.BoolVal(ok), 'one halo row per halo', key='subs:rows')
    if not ok:
        return
    cols = [k for k in cat.subsamples.colnames]
    ntot = len(cat.subsamples) if cols else 0
    cursor = 0
    layout_rows = []
    for AB in ABs:
        r = 0
        for s in slabs:
            for h in range(nh[s]):
                st = c.concretize(core.lift(real_np.asarray(cat.halos[f'npstart{AB}'])[r]).as_int(), what='npstart')
                no = c.concretize(core.lift(real_np.asarray(cat.halos[f'npout{AB}'])[r]).as_int(), what='npout')
                d = src[s][AB]
                o_st = c.concretize(common.cell(d['st'], h).e, what='orig start')
                o_no = c.concretize(common.cell(d['no'], h).e, what='orig count')
                away = False
                m_st = m_no = 0
                if cleaned:
                    away = bool(Sym(common.cell(src[s]['N_total'], h).e == 0))     # decided by the code's own mask on this path
                    m_st = c.concretize(common.cell(d['mst'], h).e, what='merge start')
                    m_no = c.concretize(common.cell(d['mno'], h).e, what='merge count')
                exp_orig = [] if away else list(range(o_st, o_st + o_no))
                exp_merge = list(range(m_st, m_st + m_no))
                layout_rows.append((AB, s, h, st, no, exp_orig, exp_merge))
                r += 1
    c.extra['sample'] = dict(case, layout=[(a, s, h, st, no) for a, s, h, st, no, _, _ in layout_rows][:6], total=ntot)
    # contiguity / order / total
    good = True
    for AB, s, h, st, no, eo, em in layout_rows:
        good = good and st == cursor and no == len(eo) + len(em)
        cursor += no
    good = good and cursor == ntot
    c.prove(z3.BoolVal(good), 'slices are contiguous, disjoint, in halo-row order with all of A before B, lengths = own + merged particles, summing to the table length',
            key='subs:layout', info=dict(layout=[(a, s, h, st, no, len(eo), len(em)) for a, s, h, st, no, eo, em in layout_rows]))
    if not good:
        return
    # contents
    box = hdr['BoxSize']
    for AB, s, h, st, no, eo, em in layout_rows:
        d = src[s][AB]
        words_rv = rows_of(d['rv'], eo[0], eo[-1] + 1) if eo else []
        words_pid = rows_of(d['pid'], eo[0], eo[-1] + 1) if eo else []
        if cleaned and em:
            words_rv += rows_of(d['crv'], em[0], em[-1] + 1)
            words_pid += rows_of(d['cpid'], em[0], em[-1] + 1)
        for k in range(no):
            conds = []
            for col in cols:
                cell = real_np.asarray(cat.subsamples[col])[st + k]
                if mode == 'passthrough' and col == 'rvint':
                    exp = list(words_rv[k])
                elif col in ('packedpid',):
                    exp = [words_pid[k]]
                elif col in ('pos', 'vel'):
                    w = SArr((1, 3), 'i4', fill=None)
                    for j in range(3):
                        real_np.ndarray.__setitem__(w, (0, j), words_rv[k][j])
                    p, v = catlib.RB.unpack_rvint(w, box)
                    exp = common.cells(p if col == 'pos' else v)
                else:
                    w = SArr((1,), 'u8', fill=None)
                    real_np.ndarray.__setitem__(w, 0, words_pid[k])
                    out = catlib.RB.unpack_pids(w, box=box, ppd=hdr['ppd'], pid=True, lagr_pos=True, tagged=True, density=True, lagr_idx=True)
                    exp = common.cells(out[col])
                got = list(real_np.atleast_1d(cell).ravel()) if isinstance(cell, real_np.ndarray) else [cell]
                if any(g is arrays.UNINIT for g in got):
                    c.report('violation', f'subsample row {st + k} ({col}) was never written', key='subs:unwritten',
                             info=dict(halo=[AB, s, h]))
                    return
                for g, e_ in zip(got, exp):
                    g, e_ = core.lift(g), core.lift(e_)
                    if not g.e.eq(e_.e):
                        conds.append(g.as_int() == e_.as_int() if (g.kind == 'v' or e_.kind == 'v') else core._b(g == e_))
            c.prove(z3.And(conds) if conds else z3.BoolVal(True),
                    'the halo\'s slice holds its own original particles followed by its merged particles, decoded from the same records',
                    key='subs:content', info=dict(halo=[AB, s, h], row=st + k))
    # every cell written exactly once
    once = all(bool((common.wcounts(cat.subsamples[col]) == 1).all()) for col in cols) if ntot else True
    c.prove(z3.BoolVal(once), 'every subsample cell written exactly once', key='subs:once')


def body_lc(nh, PF):
    c = ctx()
    case = dict(kind='lc', halos=nh, PF=PF)
    c.extra['case'] = case
    c.extra['keyprefix'] = 'lc:'
    hdr = catlib.header(c)
    st, no = layout(c, 's0', nh, PF, ('npstartA', 'npoutA'))
    data = {'N': common.sym_array('s0.N', (nh,), 'i8'), 'npstartA': st, 'npoutA': no}
    pos, vel, pid = common.sym_array('lc.pos', (PF, 3), 'f4'), common.sym_array('lc.vel', (PF, 3), 'f4'), common.sym_array('lc.pid', (PF,), 'u8', bv=True)
    catlib.install({'/cat/halo_info/halo_info_000.asdf': {'header': dict(hdr), 'data': data},
                    '/cat/lc_pid_rv.asdf': {'header': dict(hdr), 'data': {'pos': pos, 'vel': vel, 'pid': pid}}})
    cat = catlib.construct('/cat', [0], False, fields=['N', 'npstartA', 'npoutA'], subsamples=dict(A=True, pos=True, vel=True, pid=True), halo_lc=True)
    c.extra['sample'] = case
    conds = [z3.BoolVal(len(cat.subsamples) == PF)]
    for col, srcarr in (('pos', pos), ('vel', vel), ('pid', pid)):
        got = list(real_np.asarray(cat.subsamples[col]).ravel())
        conds.append(z3.BoolVal(all(g is e_ for g, e_ in zip(got, common.cells(srcarr)))))
    for h in range(nh):
        conds.append(core._b(core.lift(real_np.asarray(cat.halos['npstartA'])[h]) == common.cell(st, h)))
        conds.append(core._b(core.lift(real_np.asarray(cat.halos['npoutA'])[h]) == common.cell(no, h)))
    c.prove(z3.And(conds), 'light-cone layout: the single particle file is loaded as is and the stored npstartA/npoutA index it', key='lc:layout')


def items(tier, seed):
    out = []
    PF, CF = 2, 1
    for cleaned in (False, True):
        for ABs in (('A',), ('A', 'B')):
            for mode in ('posvel', 'pid', 'pidbits', 'passthrough'):
                if len(ABs) == 2 and mode in ('pidbits', 'passthrough'):
                    continue
                for nh0 in (0, 1, 2):
                    if len(ABs) == 2 and nh0 == 2 and cleaned:
                        continue
                    pf = 1 if (cleaned and len(ABs) == 2) else PF
                    out.append(dict(name=f'cleaned={int(cleaned)}/{"".join(ABs)}/{mode}/halos={nh0}', slabs=[0], nh={0: nh0}, PF=pf, CF=CF,
                                    cleaned=cleaned, ABs=ABs, mode=mode))
    out.append(dict(name='cleaned=1/A/posvel/slabs=2', slabs=[0, 1], nh={0: 1, 1: 1}, PF=1, CF=1, cleaned=True, ABs=('A',), mode='posvel'))
    out.append(dict(name='cleaned=0/A/pid/slabs=2', slabs=[0, 1], nh={0: 1, 1: 1}, PF=2, CF=1, cleaned=False, ABs=('A',), mode='pid'))
    # file-list loads whose superslab numbers differ from their list positions
    out.append(dict(name='cleaned=1/A/posvel/slabs=[1,2]', slabs=[1, 2], nh={1: 1, 2: 1}, PF=1, CF=1, cleaned=True, ABs=('A',), mode='posvel'))
    out.append(dict(name='cleaned=1/A/pid/slabs=[2]', slabs=[2], nh={2: 1}, PF=1, CF=1, cleaned=True, ABs=('A',), mode='pid'))
    if tier == 'thorough':
        # measured: cleaned layouts with 3 / 2 records, or both subsamples cleaned with two halos, run for more than half an hour per item and
        # are not registered; the thorough tier adds the uncleaned single-subsample layouts with a 3-record particle file
        for mode in ('posvel', 'pid', 'pidbits', 'passthrough'):
            for nh0 in (1, 2):
                out.append(dict(name=f'cleaned=0/A/{mode}/halos={nh0}/PF=3', slabs=[0], nh={0: nh0}, PF=3, CF=1, cleaned=False, ABs=('A',), mode=mode))
    for nh0 in (0, 1, 2):
        out.append(dict(name=f'lightcone/halos={nh0}', kind='lc', nh0=nh0, PF=3))
    return out


def run(item):
    if item.get('kind') == 'lc':
        return common.run_paths(lambda: body_lc(item['nh0'], item['PF']), cov_funcs=FUNCS)[0]
    nh = {int(k): v for k, v in item['nh'].items()}
    return common.run_paths(lambda: body(item['slabs'], nh, item['PF'], item['CF'], item['cleaned'], tuple(item['ABs']), item['mode']),
                            cov_funcs=FUNCS, max_paths=60000)[0]


def validate(tier):
    return catlib.validate_reader()


REPLAY = '''
sys.path.insert(0, {verif!r})
import tempfile, warnings
from checks import realcat
from abacusnbody.data.compaso_halo_catalog import CompaSOHaloCatalog
import abacusnbody.data.bitpacked as bp
warnings.simplefilter('ignore')
m = {m!r}
case = {case!r}
bad = []
def iv(k, default=0): return int(realcat.fl(m.get(k, default)))
slabs, nhs, PF, CF, cleaned, ABs, mode = case['slabs'], case['halos'], case['PF'], case['CF'], case['cleaned'], case['AB'], case['mode']
with tempfile.TemporaryDirectory() as d:
    conc, subs = {{}}, {{}}
    nhd = dict(zip(slabs, nhs))
    disk = sorted(set(slabs) | {{0}})
    for s in disk:
        n = nhd.get(s, 1)
        cc = dict(N=np.arange(n, dtype=np.uint32) + 10, N_total=np.array([iv(f'c{{s}}.N_total[{{h}}]', 5) for h in range(n)], dtype=np.uint32))
        subs[s] = {{}}
        for AB in ABs:
            cc[f'npstart{{AB}}'] = np.array([iv(f's{{s}}.npstart{{AB}}[{{h}}]') for h in range(n)], dtype=np.uint64)
            cc[f'npout{{AB}}'] = np.array([iv(f's{{s}}.npout{{AB}}[{{h}}]') for h in range(n)], dtype=np.uint32)
            cc[f'npstart{{AB}}_merge'] = np.array([iv(f'c{{s}}.npstart{{AB}}_merge[{{h}}]') for h in range(n)], dtype=np.int64)
            cc[f'npout{{AB}}_merge'] = np.array([iv(f'c{{s}}.npout{{AB}}_merge[{{h}}]') for h in range(n)], dtype=np.uint32)
            rv = np.array([[iv(f's{{s}}.rv{{AB}}[{{i}},{{j}}]', 4096 * (1 + i + 10 * j + 100 * (AB == 'B'))) for j in range(3)] for i in range(PF)], dtype=np.uint32).astype(np.int32).reshape(PF, 3)
            crv = np.array([[iv(f'c{{s}}.rv{{AB}}[{{i}},{{j}}]', 4096 * (500 + i + 10 * j)) for j in range(3)] for i in range(CF)], dtype=np.uint32).astype(np.int32).reshape(CF, 3)
            pid = np.array([iv(f's{{s}}.pid{{AB}}[{{i}}]', 1000 + i + 50 * (AB == 'B')) for i in range(PF)], dtype=np.uint64)
            cpid = np.array([iv(f'c{{s}}.pid{{AB}}[{{i}}]', 9000 + i) for i in range(CF)], dtype=np.uint64)
            subs[s][AB] = (rv, crv, pid, cpid)
        conc[s] = cc
    gdir = realcat.write_catalog(d, m, slabs=tuple(disk), nh={{s: nhd.get(s, 1) for s in disk}}, cleaned=cleaned, subsA=subs, concrete=conc)
    if list(slabs) != disk:        # file-list load of a subset of the directory
        gdir = [os.path.join(gdir, 'halo_info', f'halo_info_{{s:03d}}.asdf') for s in slabs]
    sub = {{k: True for k in ABs}}; kw = {{}}
    if mode == 'posvel': sub.update(pos=True, vel=True)
    elif mode == 'pid': sub.update(pid=True)
    elif mode == 'pidbits': sub.update(pid=True); kw['unpack_bits'] = ['lagr_idx', 'tagged']
    else: sub.update(rvint=True, packedpid=True); kw['passthrough'] = True
    try:
        cat = CompaSOHaloCatalog(gdir, cleaned=cleaned, fields=['N'] if mode != 'passthrough' else ['N', 'id'], subsamples=sub, **kw)
    except Exception as ex:
        import traceback; traceback.print_exc()
        bad.append(f'constructor raised {{type(ex).__name__}}: {{ex}}'); cat = None
    if cat is not None:
        box = cat.header['BoxSize']
        cursor = 0
        for AB in ABs:
            r = 0
            for s, n in zip(slabs, nhs):
                rv, crv, pid, cpid = subs[s][AB]
                for h in range(n):
                    cc = conc[s]
                    away = cleaned and cc['N_total'][h] == 0
                    o = [] if away else list(range(int(cc[f'npstart{{AB}}'][h]), int(cc[f'npstart{{AB}}'][h]) + int(cc[f'npout{{AB}}'][h])))
                    mm = list(range(int(cc[f'npstart{{AB}}_merge'][h]), int(cc[f'npstart{{AB}}_merge'][h]) + int(cc[f'npout{{AB}}_merge'][h]))) if cleaned else []
                    st, no = int(cat.halos[f'npstart{{AB}}'][r]), int(cat.halos[f'npout{{AB}}'][r])
                    if st != cursor or no != len(o) + len(mm):
                        bad.append(f'halo {{AB}}/{{s}}/{{h}}: slice [{{st}},{{st + no}}) expected start {{cursor}} length {{len(o) + len(mm)}}')
                    else:
                        erv = np.concatenate([rv[o].reshape(-1, 3), crv[mm].reshape(-1, 3)]) if (o or mm) else np.zeros((0, 3), dtype=np.int32)
                        epid = np.concatenate([pid[o], cpid[mm]]) if (o or mm) else np.zeros(0, dtype=np.uint64)
                        if 'pos' in cat.subsamples.colnames:
                            ep, ev = bp.unpack_rvint(erv, box)
                            if not (np.array_equal(cat.subsamples['pos'][st:st + no], ep) and np.array_equal(cat.subsamples['vel'][st:st + no], ev)):
                                bad.append(f'halo {{AB}}/{{s}}/{{h}}: pos/vel slice is not the decode of its own records')
                        if 'pid' in cat.subsamples.colnames:
                            if not np.array_equal(np.asarray(cat.subsamples['pid'][st:st + no]), bp.unpack_pids(epid, pid=True)['pid']):
                                bad.append(f'halo {{AB}}/{{s}}/{{h}}: pid slice is not the decode of its own records')
                        if 'rvint' in cat.subsamples.colnames and not np.array_equal(np.asarray(cat.subsamples['rvint'][st:st + no]), erv):
                            bad.append(f'halo {{AB}}/{{s}}/{{h}}: rvint slice differs')
                        if 'packedpid' in cat.subsamples.colnames and not np.array_equal(np.asarray(cat.subsamples['packedpid'][st:st + no]), epid):
                            bad.append(f'halo {{AB}}/{{s}}/{{h}}: packedpid slice differs')
                    cursor += no; r += 1
        if cat.subsamples.colnames and cursor != len(cat.subsamples): bad.append(f'slices cover {{cursor}} of {{len(cat.subsamples)}} subsample rows')
print('case', case)
for b_ in bad[:8]: print('  ', b_)
sys.exit(1 if bad else 0)
'''


def replay(e, path):
    info = dict(e['info'])
    case = info.pop('case', {})
    if case.get('kind') == 'lc':
        return None, 'light-cone layout counterexample: no real-file replay implemented'
    return common.write_replay(path, REPLAY.format(verif=harness.VERIF, m=e.get('model', {}), case=case))


if __name__ == '__main__':
    sys.exit(harness.main(__import__('checks.c01', fromlist=['x'])))
