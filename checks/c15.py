"""C15 -- pack9 streams decode one particle per non-header record relative to its header.

Every record is nine free bytes (bit-vectors); header vs particle is decided by forking on the
code's own test of the first byte.  The real _expand_to_short / _unpack_pack9 py_func bodies
and the wrapper unpack_pack9 are executed.  Oracle: an independent 12-bit-field
encoder/decoder pair (bijection over the 18 nibbles) and the header/particle arithmetic of
the property statement."""
import sys
import numpy as real_np
import z3
from checks import common
from checks.common import Sym, SArr, ctx, core, arrays, rebind, harness
import abacusnbody.data.pack9 as p9

ID = 'C15'
BOUNDS = {
    'quick': 'stream length M in 0..3 records (0..4 for three output modes) (all header/particle patterns whose first record is a header), every record 9 free '
             'bytes; BoxSize>0, VelZSpace_to_kms free reals; posout/velout in {None, False, supplied}; float_dtype in {f4,f8}',
    'thorough': 'as quick with M in 0..7 (M >= 4 for the three representative selection modes, float32)',
}
OUTSIDE = 'streams longer than the bound (the per-record body carries only the header state and the write counter, both covered ' \
          'by an arbitrary-header start in the M>=2 patterns); float rounding (real model)'
STUBS = []
ASSUMPTIONS = ['floats are reals', 'the stream starts with a header record (the code\'s own commented-out assertion)',
               'header cells-per-dimension field (s1+2000) >= 1', 'BoxSize > 0']
MUST_COVER = {'abacusnbody.data.pack9._expand_to_short': 0, 'abacusnbody.data.pack9._unpack_pack9': 0,
              'abacusnbody.data.pack9.unpack_pack9': 0}

R = rebind.Rebound(p9)
FUNCS = [p9._expand_to_short, p9._unpack_pack9, p9.unpack_pack9]


def sources():
    return rebind.source_hash(*FUNCS)


# ---- oracle: the pack9 nibble layout as six 12-bit fields -------------------------------------

def fields(c):
    """c: list of nine BV8 -> six BV12 (x, y, z, vx, vy, vz fields), from the format
    definition: byte0=f0[11:4], byte1=f1[11:8]:f0[3:0], byte2=f1[7:0], and so on."""
    f = []
    for g in range(3):
        a, b, d = c[3 * g], c[3 * g + 1], c[3 * g + 2]
        f.append(z3.Concat(a, z3.Extract(3, 0, b)))
        f.append(z3.Concat(z3.Extract(7, 4, b), d))
    return f


def encode(f):
    """six BV12 -> nine BV8 (independent inverse of ``fields``)."""
    c = []
    for g in range(3):
        x, y = f[2 * g], f[2 * g + 1]
        c.append(z3.Extract(11, 4, x))
        c.append(z3.Concat(z3.Extract(11, 8, y), z3.Extract(3, 0, x)))
        c.append(z3.Extract(7, 0, y))
    return c


def sfield(f):
    return z3.ToReal(z3.BV2Int(f, False) - 2048)


_real_expand = R._expand_to_short


def _expand_checked(cbytes, s):
    """Runs the real _expand_to_short, proves (bit-vector query, on this very path) that each
    short equals its 12-bit field - 2048, and then re-labels the shorts as integer variables
    tied to the fields.  The real arithmetic that follows (division by cells-per-dimension,
    scale products) then no longer mixes bit-vector and nonlinear real reasoning, which z3
    does not finish (probe: >400 s per record).  Nothing is assumed that was not just proved."""
    c = ctx()
    _real_expand(cbytes, s)
    cb = [core.lift(x) for x in common.cells(cbytes)]
    if not all(x.kind == 'v' for x in cb):
        return
    f = fields([x.e for x in cb])
    memo = c.extra.setdefault('shorts', {})
    for k in range(6):
        got = core.lift(common.cell(s, k))
        want = z3.BV2Int(f[k], False) - 2048
        wid = f[k].get_id()
        if not c.prove(got.as_int() == want, f'short {k} = 12-bit field {k} - 2048', key='expand:fields'):
            raise core.StopPath()
        ws = z3.simplify(want)
        if z3.is_int_value(ws):
            real_np.ndarray.__setitem__(s, k, ws.as_long())
            continue
        if wid not in memo:
            n = c.fresh(z3.IntSort(), 'short')
            c.add(n == want)
            memo[wid] = n
        real_np.ndarray.__setitem__(s, k, Sym(memo[wid]))


def sshort(c, f):
    """oracle-side value of a field's short: the same integer variable, if the code has
    expanded this record; else the defining term."""
    n = c.extra.get('shorts', {}).get(f.get_id())
    return z3.ToReal(n) if n is not None else sfield(f)


def body_expand():
    """_expand_to_short is the inverse of the encoder on all 2^72 records / all 2^72 field
    tuples (so every nibble is used exactly once)."""
    c = ctx()
    c.extra['case'] = dict(kind='expand')
    c.extra['sample'] = c.extra['case']
    c.extra['keyprefix'] = 'expand:'
    rec = common.sym_array('c', (9,), 'u1', bv=True)
    s = SArr((6,), 'i2', name='s')
    _real_expand(rec, s)
    cb = [x.e for x in common.cells(rec)]
    f = fields(cb)
    got = common.cells(s)
    ok = True
    for k in range(6):
        ok = c.prove(core.lift(got[k]).as_int() == z3.BV2Int(f[k], False) - 2048,
                     f'short {k} = 12-bit field {k} - 2048', key='expand:fields') and ok
    # encoder o decoder = id on bytes: re-encode the code's own shorts
    enc = encode([z3.Extract(11, 0, core.lift(got[k]).bv64() + z3.BitVecVal(2048, 64)) if core.lift(got[k]).kind == 'v'
                  else z3.Int2BV(core.lift(got[k]).as_int() + 2048, 12) for k in range(6)])
    c.prove(z3.And([enc[k] == cb[k] for k in range(9)]), 'encode(expand(c)+2048) == c for every 9-byte record', key='expand:bijection')
    # decoder o encoder = id on fields
    ff = [c.input(f'f{k}', z3.BitVecSort(12)) for k in range(6)]
    rec2 = SArr((9,), 'u1', fill=None)
    for k, b in enumerate(encode(ff)):
        rec2[k] = Sym(b, False)
    s2 = SArr((6,), 'i2')
    _real_expand(rec2, s2)
    c.prove(z3.And([core.lift(x).as_int() == z3.BV2Int(ff[k], False) - 2048 for k, x in enumerate(common.cells(s2))]),
            'expand(encode(f)) + 2048 == f for every 12-bit field tuple', key='expand:bijection2')


def body_stream(M, pmode, vmode, fdt):
    c = ctx()
    case = dict(kind='stream', M=M, posout=pmode, velout=vmode, float_dtype=fdt)
    c.extra['case'] = case
    c.extra['keyprefix'] = 'stream:'
    data = common.sym_array('data', (M, 9), 'u1', bv=True)
    box = Sym(c.input('box', z3.RealSort()))
    velz = Sym(c.input('velz', z3.RealSort()))
    c.assume(box.e > 0)
    rows = [[common.cell(data, i, k).e for k in range(9)] for i in range(M)]
    F = [fields(r) for r in rows]
    ishdr = [r[0] == z3.BitVecVal(0xFF, 8) for r in rows]
    if M:
        c.assume(ishdr[0])
    for i in range(M):
        c.assume(z3.Implies(ishdr[i], z3.BV2Int(F[i][1], False) - 2048 + 2000 >= 1))
    T = arrays.T(fdt)
    kw, sup = {}, {}
    for nm, mode in (('posout', pmode), ('velout', vmode)):
        if mode == 'none':
            kw[nm] = None
        elif mode == 'false':
            kw[nm] = False
        else:
            sup[nm] = SArr((M, 3), T, name=nm)
            kw[nm] = sup[nm]
    try:
        ret = R.unpack_pack9(data, box, velz, float_dtype=T, **kw)
    except core.ModelGap as ex:
        if 'nan' not in str(ex):
            raise
        c.report('violation', 'a particle record was decoded with the header state still unset (NaN): the stream\'s first record, a header, '
                 'was not treated as one', key='stream:headerless')
        return
    # which records were headers on this path: decided by the code's own forks; read it back
    hdr = []
    for i in range(M):
        r, _ = c._check([z3.Not(ishdr[i])], core.FORK_TIMEOUT_MS)
        hdr.append(r == 'unsat')
        if not hdr[-1]:
            r2, _ = c._check([ishdr[i]], core.FORK_TIMEOUT_MS)
            if r2 != 'unsat':
                c.report('violation', f'whether record {i} is a header is not decided by its first byte (0xFF) in the code', key='stream:header-test',
                         cond=ishdr[i])
                return
    npart = sum(1 for h in hdr if not h)
    c.extra['sample'] = dict(case, pattern=''.join('H' if h else 'p' for h in hdr))
    # oracle
    exp_pos, exp_vel = [], []
    state = None
    for i in range(M):
        s = [sshort(c, f) for f in F[i]]
        if hdr[i]:
            cpd = s[1] + 2000
            csize = core.rdiv(box.e, cpd)
            state = dict(vscale=core.rdiv((s[2] + 2000) * z3.RealVal('1/2000'), cpd) * velz.e,
                         cell=[(s[3 + k] + z3.RealVal('4001/2')) * csize - box.e / 2 for k in range(3)],
                         pscale=z3.RealVal('1/2000') * csize)
        else:
            exp_pos.append([s[k] * state['pscale'] + state['cell'][k] for k in range(3)])
            exp_vel.append([s[3 + k] * state['vscale'] for k in range(3)])
    conds = []
    for k, (nm, mode, exp) in enumerate((('posout', pmode, exp_pos), ('velout', vmode, exp_vel))):
        if mode == 'false':
            conds.append(z3.BoolVal(isinstance(ret[k], int) and ret[k] == 0))
            continue
        if mode == 'none':
            arr = ret[k]
            conds.append(z3.BoolVal(arr.shape == (npart, 3) and arr.dtype == T))
            if arr.shape != (npart, 3):
                continue
        else:
            arr = sup[nm]
            conds.append(z3.BoolVal(isinstance(ret[k], (int, Sym)) and _is(ret[k], npart)))
            # rows beyond the particle count stay untouched
            conds.append(z3.BoolVal(all(x is arrays.UNINIT for x in common.cells(arr[npart:]))))
        for r_ in range(npart):
            for j in range(3):
                got = common.cell(arr, r_, j)
                if got is arrays.UNINIT:
                    c.report('violation', f'{nm}[{r_},{j}] not written', key='stream:unwritten')
                    return
                conds.append(core.lift(got).as_real() == exp[r_][j])
    ok = True
    triv = [x for x in conds if z3.is_true(z3.simplify(x)) or z3.is_false(z3.simplify(x))]
    ok = c.prove(z3.And(triv + [z3.BoolVal(True)]), 'one output row per non-header record, in stream order; count returned',
                 key='stream:rows')
    for x in conds:
        if x not in triv:
            ok = c.prove(x, 'particle decoded relative to the most recent header (cpd, velocity scale, cell index)',
                         key='stream:decode') and ok


def _is(v, n):
    if isinstance(v, Sym):
        v = z3.simplify(v.as_int())
        return z3.is_int_value(v) and v.as_long() == n
    return int(v) == n


def body_quantum():
    """One-quantum recovery through the code's decode term: a particle at offset x from its
    cell centre (|x| within the 12-bit range) encoded by truncation or rounding to the
    quantum 0.0005*cellsize comes back within one quantum; same for velocity."""
    c = ctx()
    c.extra['case'] = dict(kind='quantum')
    c.extra['sample'] = c.extra['case']
    c.extra['keyprefix'] = 'quantum:'
    box = Sym(c.input('box', z3.RealSort()))
    velz = Sym(c.input('velz', z3.RealSort()))
    c.assume(z3.And(box.e > 0, velz.e > 0))
    hf = [c.input(f'h{k}', z3.BitVecSort(12)) for k in range(6)]
    pf = [c.input(f'p{k}', z3.BitVecSort(12)) for k in range(6)]
    c.assume(z3.And(z3.Extract(11, 4, hf[0]) == 0xFF, z3.Extract(11, 4, pf[0]) != 0xFF))
    c.assume(z3.BV2Int(hf[1], False) - 2048 + 2000 >= 1)
    c.assume(z3.BV2Int(hf[2], False) - 2048 + 2000 >= 1)
    x = c.input('x', z3.RealSort())     # true position
    v = c.input('v', z3.RealSort())     # true velocity
    data = SArr((2, 9), 'u1', fill=None, name='data')
    for i, f in enumerate((hf, pf)):
        for k, b in enumerate(encode(f)):
            data[i, k] = Sym(b, False)
    try:
        pos, vel = R.unpack_pack9(data, box, velz, float_dtype=arrays.T('f8'))
    except core.ModelGap as ex:
        if 'nan' not in str(ex):
            raise
        c.report('violation', 'a particle record was decoded with the header state still unset (NaN)', key='stream:headerless')
        return
    F2 = [fields([common.cell(data, i, k).e for k in range(9)]) for i in range(2)]
    cpd = sshort(c, F2[0][1]) + 2000
    vs = sshort(c, F2[0][2]) + 2000
    csize = core.rdiv(box.e, cpd)
    q = csize / 2000
    cellx = (sshort(c, F2[0][3]) + z3.RealVal('4001/2')) * csize - box.e / 2
    vq = core.rdiv(vs / 2000, cpd) * velz.e
    if pos.shape != (1, 3):
        c.report('violation', 'header+particle stream did not yield one particle', key='quantum:rows')
        return
    gp, gv = core.lift(common.cell(pos, 0, 0)).as_real(), core.lift(common.cell(vel, 0, 0)).as_real()
    E, Ev = sshort(c, F2[1][0]) * q + cellx, sshort(c, F2[1][3]) * vq
    # (i) the decoded value is exactly short*quantum (+ cell centre): nonlinear identity
    if not c.prove(z3.And(gp == E, gv == Ev), 'decoded value = short * quantum (+ cell centre)', key='quantum:decode'):
        return
    # (ii) with (i) as a proved lemma the recovery bound is linear: name the terms
    E_, q_, Ev_, vq_ = (c.fresh(z3.RealSort(), n) for n in ('E', 'q', 'Ev', 'vq'))
    c.add(z3.And(gp == E_, gv == Ev_))          # proved in (i), E_/Ev_ are names for E/Ev
    c.add(z3.And(q_ > 0, vq_ > 0))              # quanta are positive (box, velz > 0, cpd, vscale >= 1)
    # encoder contract: the stored short is within one quantum of the true value
    c.assume(z3.And(E_ - x <= q_, x - E_ <= q_, Ev_ - v <= vq_, v - Ev_ <= vq_))
    c.prove(z3.And(gp - x <= q_, x - gp <= q_, gv - v <= vq_, v - gv <= vq_),
            'position/velocity encoded to the format is recovered to within one quantum', key='quantum:recover')


R.set_global('_expand_to_short', _expand_checked)


def items(tier, seed):
    out = [dict(name='expand', kind='expand'), dict(name='quantum', kind='quantum')]
    Ms = range(0, 5) if tier == 'quick' else range(0, 8)
    for fdt in ('f4', 'f8'):
        for pm in ('none', 'false', 'supplied'):
            for vm in ('none', 'false', 'supplied'):
                for M in Ms:
                    if M >= 4 and (fdt == 'f8' or (pm, vm) not in (('none', 'none'), ('supplied', 'false'), ('false', 'supplied'))):
                        continue
                    out.append(dict(name=f'stream/{fdt}/pos={pm}/vel={vm}/M={M}', kind='stream', M=M, pm=pm, vm=vm, fdt=fdt))
    return out


def run(item):
    if item['kind'] == 'expand':
        return common.run_paths(body_expand, cov_funcs=FUNCS)[0]
    if item['kind'] == 'quantum':
        return common.run_paths(body_quantum, cov_funcs=FUNCS)[0]
    return common.run_paths(lambda: body_stream(item['M'], item['pm'], item['vm'], item['fdt']), cov_funcs=FUNCS)[0]


def _enc_np(f):
    c = []
    for g in range(3):
        x, y = int(f[2 * g]), int(f[2 * g + 1])
        c += [x >> 4, ((y >> 8) << 4) | (x & 0xF), y & 0xFF]
    return c


def validate(tier):
    """Engine with constant bit-vectors vs the compiled kernel on boundary streams."""
    rng = real_np.random.default_rng(7)
    recs = [_enc_np([0xFF0, 2048 + 1701 - 2000, 2048 + 100, 2048 - 1500, 2048, 2048 + 2047]),   # header cpd=1701
            _enc_np([0, 4095, 2048, 0, 4095, 2048]), _enc_np([4095 & 0xFEF, 0, 1, 2, 3, 4]),
            _enc_np([0xFF7, 2048 - 2000 + 3, 4095, 0, 2048, 4095]),                                 # header cpd=3
            _enc_np([2048, 2048, 2048, 2048, 2048, 2048])]
    recs += [_enc_np([int(x) for x in rng.integers(0, 4096, 6) & [0xFEF, 0xFFF, 0xFFF, 0xFFF, 0xFFF, 0xFFF]]) for _ in range(4)]
    data = real_np.array(recs, dtype=real_np.uint8)
    box, velz = 2000.0, 1234.5
    pos, vel = p9.unpack_pack9(data, box, velz, float_dtype=real_np.float64)

    def body():
        R.set_global('_expand_to_short', _real_expand)   # plain translator validation, no property proof
        d = SArr(data.shape, 'u1', fill=None)
        for idx in real_np.ndindex(*data.shape):
            d[idx] = Sym(z3.BitVecVal(int(data[idx]), 8), False)
        p, v = R.unpack_pack9(d, box, velz, float_dtype=arrays.T('f8'))
        conc = lambda x: float(common.fr(core._pyval(z3.simplify(core.lift(x).as_real()))))
        return p.shape, [conc(x) for x in common.cells(p)], [conc(x) for x in common.cells(v)]
    try:
        res = core.explore(body)
    finally:
        R.set_global('_expand_to_short', _expand_checked)
    assert len(res) == 1 and res[0].exc is None, res[0].exc
    shp, p, v = res[0].ret
    assert shp == pos.shape, (shp, pos.shape)
    assert real_np.allclose(p, pos.ravel(), rtol=1e-9, atol=1e-9), (p, pos.ravel())
    assert real_np.allclose(v, vel.ravel(), rtol=1e-9, atol=1e-9), (v, vel.ravel())
    return int(pos.size + vel.size)


def replay(e, path):
    i = e['info'].get('case', {})
    m = e.get('model', {})
    body = f'''
import abacusnbody.data.pack9 as p9
from fractions import Fraction as F
m = {m!r}
case = {i!r}
bad = []

def fields(c):
    f = []
    for g in range(3):
        a, b, d = int(c[3 * g]), int(c[3 * g + 1]), int(c[3 * g + 2])
        f += [(a << 4) | (b & 0xF), ((b >> 4) << 8) | d]
    return f

def enc(f):
    c = []
    for g in range(3):
        x, y = int(f[2 * g]), int(f[2 * g + 1])
        c += [x >> 4, ((y >> 8) << 4) | (x & 0xF), y & 0xFF]
    return c

def oracle(data, box, velz):
    pos, vel, st = [], [], None
    for r in data:
        s = [x - 2048 for x in fields(r)]
        if r[0] == 0xFF:
            cpd = s[1] + 2000
            cs = box / cpd
            st = ((s[2] + 2000) * 0.0005 / cpd * velz, [(s[3 + k] + 2000.5) * cs - box / 2 for k in range(3)], 0.0005 * cs)
        else:
            pos.append([s[k] * st[2] + st[1][k] for k in range(3)]); vel.append([s[3 + k] * st[0] for k in range(3)])
    return np.array(pos).reshape(-1, 3), np.array(vel).reshape(-1, 3)

kind = case.get('kind')
if kind == 'expand':
    c = np.array([m.get(f'c[{{k}}]', 0) for k in range(9)], dtype=np.uint8)
    for rec in (c, np.array(enc([m.get(f'f{{k}}', 0) for k in range(6)]), dtype=np.uint8)):
        s = np.zeros(6, dtype=np.int16)
        p9._expand_to_short(rec, s)
        if [int(x) + 2048 for x in s] != fields(rec):
            bad.append(f'record {{rec.tolist()}}: shorts+2048 = {{[int(x) + 2048 for x in s]}}, fields = {{fields(rec)}}')
else:
    box = float(F(m.get('box', 1))); velz = float(F(m.get('velz', 1)))
    if kind == 'quantum':
        data = np.array([enc([m.get(f'h{{k}}', 0) for k in range(6)]), enc([m.get(f'p{{k}}', 0) for k in range(6)])], dtype=np.uint8)
        pm = vm = 'none'; fd = np.float64
    else:
        M = case['M']
        data = np.array([[m.get(f'data[{{i}},{{k}}]', 0) for k in range(9)] for i in range(M)], dtype=np.uint8).reshape(M, 9)
        pm, vm, fd = case['posout'], case['velout'], np.dtype(case['float_dtype']).type
    kw = {{}}
    for nm, mode in (('posout', pm), ('velout', vm)):
        kw[nm] = None if mode == 'none' else False if mode == 'false' else np.full((len(data), 3), np.nan, dtype=fd)
    ret = p9.unpack_pack9(data, box, velz, float_dtype=fd, **kw)
    ep, ev = oracle(data, box, velz)
    for k, (nm, mode, exp) in enumerate((('posout', pm, ep), ('velout', vm, ev))):
        if mode == 'false':
            if ret[k] != 0: bad.append(f'{{nm}}=False returned {{ret[k]}}')
            continue
        got = ret[k] if mode == 'none' else kw[nm][:ret[k]]
        if got.shape != exp.shape or not np.allclose(got, exp, rtol=2e-5, atol=2e-5 * (abs(box) if k == 0 else abs(velz))):   # scale-free: a tiny box must not hide a half-cell error
            bad.append(f'{{nm}}: got {{np.asarray(got).tolist()}} expected {{exp.tolist()}} for records {{data.tolist()}}')
print('case', case)
for b in bad: print('  ', b)
sys.exit(1 if bad else 0)
'''
    return common.write_replay(path, body)


if __name__ == '__main__':
    sys.exit(harness.main(__import__('checks.c15', fromlist=['x'])))
