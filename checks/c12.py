"""C12 -- HOD staging keeps every per-halo attribute on the same row.

The real AbacusHOD.staging body and _searchsorted_parallel run on in-memory slab files
(h5py.File / asdf.open / Path.glob stubbed) whose every field value is a free symbol and whose
halo ids are free distinct integers in arbitrary order (increasing, decreasing, interleaved
across slabs are all models); np.argsort is a contract stub."""
import sys
import itertools
import logging
import pathlib
import types
import numpy as real_np
import z3
from checks import common
common.fake_modules()
from checks.common import Sym, SArr, ctx, core, arrays, rebind, harness
import abacusnbody.hod.abacus_hod as ah

ID = 'C12'
BOUNDS = {
    'quick': 'slabs 1..2 x halos per slab in {0,1,2} x particles per slab in {0,1}, all field values free, ids free distinct ints in any '
             'order; flags want_AB / want_shear / want_ranks / want_expvel and the tracer set (file-name variant) over 6 combinations; '
             'chunking (n_chunks, chunk) in {(1,-1), (1,0), (2,1)}'
             '; also: _searchsorted_parallel under the race monitor; integer-to-float store monitor',
    'thorough': 'quick plus 3 slabs, 2 particles per slab, all 16 flag combinations',
}
OUTSIDE = 'HDF5/ASDF containers (stubs); more slabs/halos than the bound (the concatenate-then-permute structure does not depend on the count)'
STUBS = ['h5py.File, asdf.open, Path.glob/mkdir: in-memory tables', 'np.argsort: any permutation that sorts its input',
         'np.searchsorted: #{a_j < v} on sorted input']
ASSUMPTIONS = ['floats are reals', 'halo ids are duplicate-free']
MUST_COVER = {'abacusnbody.hod.abacus_hod.AbacusHOD.staging': 12}     # halo_lc file name, 1-d velocity-deviate fallback, secondary-redshift branch

HF = ['x_L2com:3', 'v_L2com:3', 'randoms_gaus_vrms:3', 'randoms_exp:3', 'sigmav3d_L2com', 'r98_L2com', 'r25_L2com', 'N', 'deltac_rank', 'fenv_rank',
      'shear_rank', 'multi_halos', 'randoms']
PF = ['pos:3', 'vel:3', 'halo_vel:3', 'halo_mass', 'Np', 'downsample_halo', 'randoms', 'halo_deltac', 'halo_fenv', 'halo_shear',
      'ranks', 'ranksv', 'ranksp', 'ranksr', 'ranksc']
FUNCS = [ah.AbacusHOD.staging, ah._searchsorted_parallel]


def sources():
    return rebind.source_hash(*FUNCS)


class FakeDS:
    def __init__(self, cols):
        self.cols = cols
        self.dtype = types.SimpleNamespace(fields={k: None for k in cols})

    def __getitem__(self, k):
        return self.cols[k]

    def __len__(self):
        return len(next(iter(self.cols.values())))


def make_ns(H5, slabs):
    class FakeH5:
        @staticmethod
        def File(fn, mode='r'):
            return H5[pathlib.Path(fn).name]

    class FakeAsdf:
        @staticmethod
        def open(fn, **kw):
            return {'header': H5['__header__']}

    class FakePath(type(pathlib.Path())):
        def mkdir(self, *a, **k):
            pass

        def glob(self, pat):
            return iter([pathlib.Path(f'/sim/halo_info_{s:03d}.asdf') for s in range(slabs)])
    return rebind.Rebound(ah, overrides=dict(h5py=FakeH5, asdf=FakeAsdf, Path=FakePath))


def body(nslab, nh, npart, flags, tracers, chunking):
    c = ctx()
    c.extra['int_to_float_monitor'] = True      # halo ids are 64-bit integers: they must never travel through a float array
    want_AB, want_shear, want_ranks, want_expvel = flags
    case = dict(slabs=nslab, halos=nh, particles=npart, want_AB=want_AB, want_shear=want_shear, want_ranks=want_ranks, want_expvel=want_expvel,
                tracers=list(tracers), chunking=list(chunking))
    c.extra['case'] = case
    c.extra['keyprefix'] = 'staging:'
    mt = ('ELG' in tracers) or ('QSO' in tracers)
    H5 = {'__header__': {'H0': 67.0, 'BoxSize': Sym(c.input('BoxSize', z3.RealSort())), 'ParticleMassHMsun': Sym(c.input('Mpart', z3.RealSort())),
                         'VelZSpace_to_kms': Sym(c.input('VelZ', z3.RealSort()))}}
    src = []
    for s in range(nslab):
        hc = {'id': common.sym_array(f's{s}.id', (nh,), 'i8')}
        for f in HF:
            n, _, d = f.partition(':')
            hc[n] = common.sym_array(f's{s}.{n}', (nh, 3) if d else (nh,), 'f8')
        pc = {'halo_id': common.sym_array(f's{s}.p.halo_id', (npart,), 'i8')}
        for f in PF:
            n, _, d = f.partition(':')
            pc[n] = common.sym_array(f's{s}.p.{n}', (npart, 3) if d else (npart,), 'f8')
        tag = '_MT' if mt else ''
        H5[f'halos_xcom_{s}_seed600_abacushod_oldfenv{tag}_new.h5'] = {'halos': FakeDS(hc)}
        H5[f'particles_xcom_{s}_seed600_abacushod_oldfenv{tag}{"_withranks" if want_ranks else ""}_new.h5'] = {'particles': FakeDS(pc)}
        src.append((hc, pc))
    ids = [common.cell(hc['id'], k).e for hc, _ in src for k in range(nh)]
    if len(ids) > 1:
        c.assume(z3.Distinct(*ids), 'halo ids are duplicate-free')
    R = make_ns(H5, nslab)
    n_chunks, chunk = chunking
    me = types.SimpleNamespace(output_dir='/out', sim_name='sim', sim_dir='/sim', z_mock=0.5, subsample_dir='/sub', halo_lc=False,
                               n_chunks=n_chunks, chunk=chunk, tracers={t: {} for t in tracers}, force_mt=False, want_ranks=want_ranks,
                               want_AB=want_AB, want_shear=want_shear, want_expvel=want_expvel, z_type='primary', logger=logging.getLogger('c12'))
    rebind.NB.reset(4)
    hd, pd, params, _ = R.AbacusHOD.staging(me)
    # which slabs were loaded (chunking)
    n_jump = -(-nslab // n_chunks)
    ch = 0 if chunk == -1 else chunk
    lo, hi = ch * n_jump, min((ch + 1) * n_jump, nslab)
    loaded = [(s, k) for s in range(lo, hi) for k in range(nh)]
    N = len(loaded)
    c.extra['sample'] = dict(case, rows=N, decisions=len(c.taken))
    # per-halo arrays expected in the output and their source expression
    vd = 'randoms_exp' if want_expvel else 'randoms_gaus_vrms'
    def srcval(name, hcols, k):
        g = lambda col, *j: common.cell(hcols[col], k, *j)
        if name == 'hpos': return [g('x_L2com', j) for j in range(3)]
        if name == 'hvel': return [g('v_L2com', j) for j in range(3)]
        if name == 'hveldev': return [g(vd, j) for j in range(3)]
        if name == 'hmass': return [g('N') * params['Mpart']]
        if name == 'hmultis': return [g('multi_halos')]
        if name == 'hrandoms': return [g('randoms')]
        if name == 'hsigma3d': return [g('sigmav3d_L2com')]
        if name == 'hc': return [g('r98_L2com') / g('r25_L2com')]
        if name == 'hrvir': return [g('r98_L2com')]
        if name == 'hdeltac': return [g('deltac_rank')]
        if name == 'hfenv': return [g('fenv_rank')]
        if name == 'hshear': return [g('shear_rank')]
        raise KeyError(name)
    names = ['hpos', 'hvel', 'hmass', 'hmultis', 'hrandoms', 'hveldev', 'hsigma3d', 'hc', 'hrvir']
    names += ['hdeltac', 'hfenv'] if want_AB else []
    names += ['hshear'] if want_shear else []
    struct = all(nm in hd and len(hd[nm]) == N for nm in names + ['hid'])
    c.prove(z3.BoolVal(struct), 'every per-halo array is returned with one row per loaded halo', key='staging:arrays')
    if not struct:
        return
    hid = [core.lift(common.cell(hd['hid'], r)) for r in range(N)]
    for r in range(N - 1):
        c.prove(core._b(hid[r] < hid[r + 1]), 'rows are in increasing id order', key='staging:sorted')
    # the source row of output row r: decided by the ids (distinct)
    for r in range(N):
        which = None
        for (s, k) in loaded:
            if not c.feasible(core._b(hid[r] != common.cell(src[s][0]['id'], k))):
                which = (s, k)
                break
        if which is None:
            c.report('violation', f'output row {r} carries an id that is not (provably) one input halo\'s id', key='staging:ids')
            return
        s, k = which
        for nm in names:
            want = srcval(nm, src[s][0], k)
            got = [common.cell(hd[nm], r, j) for j in range(3)] if len(want) == 3 else [common.cell(hd[nm], r)]
            conds = [core._b(core.lift(g) == core.lift(w)) for g, w in zip(got, want)]
            c.prove(z3.And(conds), f'{nm} of a row belongs to the halo whose id the row carries', key=f'staging:align:{nm}',
                    info=dict(column=nm))
    # particles: host index points to the halo whose id the particle records
    pl = [(s, k) for s in range(lo, hi) for k in range(npart)]
    for p, (s, k) in enumerate(pl):
        pid = common.cell(src[s][1]['halo_id'], k)
        ind = core.lift(common.cell(pd['pinds'], p)).as_int()
        cond = z3.BoolVal(True)
        for r in range(N):
            cond = z3.And(cond, z3.Implies(hid[r].e == pid.e, ind == r))
        c.prove(z3.And(cond, core._b(core.lift(common.cell(pd['phid'], p)) == pid)),
                'a particle\'s host index points to the halo whose id it records (when that halo is loaded)', key='staging:pinds')


FLAGSETS = [(False, False, False, False), (True, True, False, False), (True, False, True, True), (False, True, True, False), (True, True, True, True),
            (False, False, False, True)]


def items(tier, seed):
    out = []
    if tier == 'quick':
        shapes = [(1, 2, 1), (2, 1, 1), (2, 2, 0), (1, 0, 0), (2, 0, 1)]
        flagsets = FLAGSETS
    else:
        shapes = [(1, 2, 1), (2, 1, 1), (2, 2, 0), (1, 0, 0), (2, 0, 1), (3, 1, 1), (2, 2, 2), (3, 2, 0)]
        flagsets = list(itertools.product((False, True), repeat=4))
    for (ns, nh, npt) in shapes:
        for fi, fl in enumerate(flagsets):
            tr = ('LRG',) if fi % 2 == 0 else ('LRG', 'ELG')
            ch = [(1, -1), (1, 0), (2, 1)][fi % 3] if ns >= 2 else (1, -1)
            if tier == 'quick' and (ns, nh, npt) in ((2, 2, 0),) and fi > 2:
                continue
            out.append(dict(name=f'slabs={ns}/halos={nh}/parts={npt}/flags={"".join(str(int(x)) for x in fl)}/{"+".join(tr)}/chunk={ch[0]}.{ch[1]}',
                            ns=ns, nh=nh, npt=npt, flags=fl, tracers=tr, ch=ch))
    # the particle-to-halo index itself: _searchsorted_parallel under the prange race monitor (obligation shared with C10)
    out.append(dict(name='search', kind='search'))
    return out


def run(item):
    if item.get('kind') == 'search':
        from checks import c10
        return c10.run(item)
    return common.run_paths(lambda: body(item['ns'], item['nh'], item['npt'], tuple(item['flags']), tuple(item['tracers']), tuple(item['ch'])),
                            cov_funcs=FUNCS, max_paths=50000)[0]


def finding_key(e):
    if e['key'].startswith('staging:align:'):
        col = e['key'].split(':')[-1]
        return 'staging:align:' + ('hc,hrvir' if col in ('hc', 'hrvir') else col)
    return e['key']


REPLAY = '''
import h5py, asdf, tempfile, logging, types
from fractions import Fraction as F
import abacusnbody.hod.abacus_hod as ah
m = {m!r}
case = {i!r}
def fl(v): return float(F(v)) if not isinstance(v, bool) else float(v)
ns, nh, npt = case['slabs'], case['halos'], case['particles']
HF = {HF!r}; PF = {PF!r}
mt = ('ELG' in case['tracers']) or ('QSO' in case['tracers'])
bad = []
BIGIDS = {bigids!r}
nhs_done, allp_ids = [], []
with tempfile.TemporaryDirectory() as d:
    sub = os.path.join(d, 'sub', 'sim', 'z0.500'); os.makedirs(sub)
    hi = os.path.join(d, 'sim', 'sim', 'halos', 'z0.500', 'halo_info'); os.makedirs(hi)
    srcs = []
    for s in range(ns):
        asdf.AsdfFile({{'header': {{'H0': 67.0, 'BoxSize': fl(m.get('BoxSize', 1)) or 1.0, 'ParticleMassHMsun': fl(m.get('Mpart', 1)) or 1.0, 'VelZSpace_to_kms': fl(m.get('VelZ', 1)) or 1.0}}}}).write_to(os.path.join(hi, f'halo_info_{{s:03d}}.asdf'))
        dt = [('id', 'i8')] + [((f.split(':')[0]), 'f8', (3,)) if ':' in f else (f, 'f8') for f in HF]
        h = np.zeros(nh, dtype=dt)
        for k in range(nh):
            h['id'][k] = int(m.get(f's{{s}}.id[{{k}}]', 10 * s + k))
            for f in HF:
                n = f.split(':')[0]
                if ':' in f:
                    for j in range(3): h[n][k, j] = fl(m.get(f's{{s}}.{{n}}[{{k}},{{j}}]', 0)) or (1.0 + s + 0.1 * k + 0.01 * j)
                else:
                    h[n][k] = fl(m.get(f's{{s}}.{{n}}[{{k}}]', 0)) or (2.0 + s + 0.1 * k + 0.001 * len(n))
        dtp = [('halo_id', 'i8')] + [((f.split(':')[0]), 'f8', (3,)) if ':' in f else (f, 'f8') for f in PF]
        p = np.ones(npt, dtype=dtp)
        for k in range(npt): p['halo_id'][k] = int(m.get(f's{{s}}.p.halo_id[{{k}}]', 10 * s))
        if BIGIDS:      # witness family for the integer-to-float monitor: ids just above 2^53, particles on the odd ones
            for k in range(len(h)): h['id'][k] = 2 ** 53 + 2 * (len(nhs_done) * 8 + k) + 1
            for k in range(npt): p['halo_id'][k] = h['id'][min(k, len(h) - 1)] if len(h) else 2 ** 53 + 1
        nhs_done.append(s); allp_ids.extend(int(x) for x in p['halo_id'])
        tag = '_MT' if mt else ''
        with h5py.File(os.path.join(sub, f'halos_xcom_{{s}}_seed600_abacushod_oldfenv{{tag}}_new.h5'), 'w') as f5: f5.create_dataset('halos', data=h)
        with h5py.File(os.path.join(sub, f'particles_xcom_{{s}}_seed600_abacushod_oldfenv{{tag}}{{"_withranks" if case["want_ranks"] else ""}}_new.h5'), 'w') as f5: f5.create_dataset('particles', data=p)
        srcs.append((h, p))
    me = types.SimpleNamespace(output_dir=os.path.join(d, 'out'), sim_name='sim', sim_dir=os.path.join(d, 'sim'), z_mock=0.5, subsample_dir=os.path.join(d, 'sub'),
                               halo_lc=False, n_chunks=case['chunking'][0], chunk=case['chunking'][1], tracers={{t: {{}} for t in case['tracers']}}, force_mt=False,
                               want_ranks=case['want_ranks'], want_AB=case['want_AB'], want_shear=case['want_shear'], want_expvel=case['want_expvel'],
                               z_type='primary', logger=logging.getLogger('replay'))
    hd, pd, params, _ = ah.AbacusHOD.staging(me)
    allh = np.concatenate([h for h, _ in srcs]) if srcs else None
    if not (np.diff(hd['hid']) > 0).all(): bad.append(f'ids not increasing: {{hd["hid"].tolist()}}')
    for r, i_ in enumerate(hd['hid']):
        srow = allh[allh['id'] == i_]
        if len(srow) != 1: bad.append(f'row {{r}} id {{i_}} not found once'); continue
        srow = srow[0]
        exp = dict(hc=srow['r98_L2com'] / srow['r25_L2com'], hrvir=srow['r98_L2com'], hsigma3d=srow['sigmav3d_L2com'], hmultis=srow['multi_halos'],
                   hrandoms=srow['randoms'], hmass=srow['N'] * params['Mpart'])
        for k, v in exp.items():
            if not np.isclose(hd[k][r], v, rtol=1e-12, atol=0): bad.append(f'row {{r}} (id {{i_}}): {{k}} = {{hd[k][r]}} but that halo has {{v}}')
        vecs = dict(hpos='x_L2com', hvel='v_L2com', hveldev='randoms_exp' if case['want_expvel'] else 'randoms_gaus_vrms')
        for k, src_ in vecs.items():
            if not np.allclose(hd[k][r], srow[src_]): bad.append(f'row {{r}} (id {{i_}}): {{k}} belongs to another halo')
        for k, src_ in dict(hdeltac='deltac_rank', hfenv='fenv_rank', hshear='shear_rank').items():
            if k in hd and not np.isclose(hd[k][r], srow[src_], rtol=1e-12, atol=0): bad.append(f'row {{r}} (id {{i_}}): {{k}} = {{hd[k][r]}} but that halo has {{srow[src_]}}')
    if np.asarray(pd['phid']).dtype.kind not in 'iu': bad.append(f"particle host ids are staged as {{np.asarray(pd['phid']).dtype}}: 64-bit ids do not survive a float array")
    srcp = set(int(x) for x in allp_ids)
    for p_, hid_ in enumerate(pd['phid']):
        if int(hid_) not in srcp: bad.append(f'particle {{p_}} is staged with host id {{int(hid_)}}, which no particle file records')
        if hid_ in hd['hid'] and hd['hid'][pd['pinds'][p_]] != hid_: bad.append(f'particle {{p_}} host index points to id {{hd["hid"][pd["pinds"][p_]]}}, records {{hid_}}')
print('case', case, 'ids', [int(x) for x in (hd['hid'] if 'hd' in dir() else [])])
for b_ in bad[:10]: print('  ', b_)
sys.exit(1 if bad else 0)
'''


def validate(tier):
    """The real staging on real HDF5 + ASDF files (2 slabs x 2 halos, ids in decreasing order, one
    particle per slab) must keep rows aligned -- the same observation the engine's oracle makes.
    Run through the replay script with a hand-made 'model'."""
    import os
    m = {'s0.id[0]': 9, 's0.id[1]': 4, 's1.id[0]': 7, 's1.id[1]': 1, 's0.p.halo_id[0]': 4, 's1.p.halo_id[0]': 7}
    case = dict(slabs=2, halos=2, particles=1, want_AB=True, want_shear=True, want_ranks=False, want_expvel=False, tracers=['LRG'], chunking=[1, -1])
    path = os.path.join(harness.VERIF, 'replays', ID, '_validate.py')
    rep, detail = common.write_replay(path, REPLAY.format(m=m, i=case, HF=HF, PF=PF, bigids=False))
    if rep is not False:
        raise AssertionError('real staging misaligns rows on a concrete 2x2 catalogue: ' + str(detail)[-600:])
    return 1


def replay(e, path):
    i = e['info'].get('case', {})
    m = e.get('model', {})
    if i.get('kind') == 'search':
        from checks import c10
        return c10.replay(e, path)
    return common.write_replay(path, REPLAY.format(m=m, i=i, HF=HF, PF=PF, bigids=str(e.get('key', '')).find('intfloat') >= 0))


if __name__ == '__main__':
    sys.exit(harness.main(__import__('checks.c12', fromlist=['x'])))
