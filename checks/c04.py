"""C04 -- RVint and PID bit fields decode exactly per the documented layout.

Every RVint word is a free 32-bit vector, every aux word a free 64-bit vector (all 2^32 /
2^64 values, no bound on the words); BoxSize and ppd are free.  The real py_func bodies of
bitpacked._unpack_rvint / _unpack_pids and the real wrappers unpack_rvint / unpack_pids /
empty_bitpacked_arrays are executed; the oracle is written from the documented layout with
z3 Extract/SignExt and compared to the code's output as a pure bit-vector / real query."""
import itertools
import sys
import numpy as real_np
import z3
from checks import common
from checks.common import Sym, SArr, ctx, core, arrays, rebind, harness
import abacusnbody.data.bitpacked as bp

ID = 'C04'
BOUNDS = {
    'quick': 'words: all 2^32 RVint / 2^64 aux values (free bit-vectors); N in {0,1,2} records; BoxSize>0 real, ppd>=1 int free; '
             'posout/velout in {None, False, supplied}^2; all 32 pid-flag subsets; float_dtype in {f4,f8}; '
             'unpack_bits in {True, False, each name, 3 lists}'
             '; also: ppd also as a float within 1e-9 of an integer <= 100000',
    'thorough': 'same as quick plus N=3 and all pairs of unpack_bits names',
}
OUTSIDE = 'float32/float64 rounding of the scale multiplications (real model); numba integer typing is part of the model and is ' \
          'validated against the compiled kernels on boundary words each run'
STUBS = ['np.isclose on a symbolic ppd: |a-b| <= atol + rtol*|b| in real arithmetic']
ASSUMPTIONS = ['floats are reals', 'BoxSize > 0, ppd >= 1']
MUST_COVER = {'abacusnbody.data.bitpacked._unpack_rvint': 0, 'abacusnbody.data.bitpacked._unpack_pids': 0,
              'abacusnbody.data.bitpacked.unpack_rvint': 0, 'abacusnbody.data.bitpacked.unpack_pids': 0,
              'abacusnbody.data.bitpacked.empty_bitpacked_arrays': 0}

R = rebind.Rebound(bp)
FUNCS = [bp._unpack_rvint, bp._unpack_pids, bp.unpack_rvint, bp.unpack_pids, bp.empty_bitpacked_arrays]


def sources():
    return rebind.source_hash(*FUNCS)


# ---- oracle, written from the documented layout --------------------------------------------

def o_pos(w, box):
    return z3.ToReal(z3.BV2Int(z3.Extract(31, 12, w), True)) * box / 1000000


def o_vel(w):
    return (z3.ToReal(z3.BV2Int(z3.Extract(11, 0, w), False)) - 2048) * z3.RealVal('6000/2048')


def o_lagr_idx(w, j):
    return z3.BV2Int(z3.Extract(14 + 16 * j, 16 * j, w), False)


def o_tagged(w):
    return z3.BV2Int(z3.Extract(48, 48, w), False)


def o_density(w):
    d = z3.BV2Int(z3.Extract(58, 49, w), False)
    return z3.ToReal(d * d)


def o_pid(w):
    return z3.BV2Int(w & z3.BitVecVal(0x7FFF7FFF7FFF, 64), False)


def val(x):
    return core.lift(x)


def eq_int(got, want):
    return val(got).as_int() == want


def eq_real(got, want):
    return val(got).as_real() == want


def prove_each(c, conds, what, key):
    """One query per output cell (a conjunction over all cells mixes bit-vector and
    nonlinear real reasoning and is needlessly slow)."""
    triv = [x for x in conds if z3.is_true(z3.simplify(x))]
    rest = [x for x in conds if not z3.is_true(z3.simplify(x))]
    ok = c.prove(z3.BoolVal(True) if len(triv) == len(conds) else z3.And(triv + [z3.BoolVal(True)]), what, key=key)
    for x in rest:
        ok = c.prove(x, what, key=key) and ok
    return ok


def body_errors():
    """Documented argument errors of unpack_pids (raised before any decoding)."""
    c = ctx()
    c.extra['case'] = dict(kind='errors')
    c.extra['sample'] = c.extra['case']
    packed = common.sym_array('packed', (1,), 'u8', bv=True)
    got = []
    for kw in (dict(lagr_pos=True), dict(lagr_pos=True, box=1.0), dict(lagr_pos=True, box=1.0, ppd=2.5)):
        try:
            R.unpack_pids(packed, **kw)
            got.append(False)
        except ValueError:
            got.append(True)
    c.prove(z3.BoolVal(all(got)), 'lagr_pos without box/ppd, or a non-integer ppd, raises ValueError', key='pids:errors')


# ---- harness bodies ------------------------------------------------------------------------

def body_rvint(N, pmode, vmode, fdt):
    c = ctx()
    c.extra['case'] = dict(kind='rvint', N=N, posout=pmode, velout=vmode, float_dtype=fdt)
    c.extra['keyprefix'] = 'rvint:'
    c.extra['sample'] = c.extra['case']
    data = common.sym_array('rvint', (N, 3), 'i4', bv=True)
    box = Sym(c.input('box', z3.RealSort()))
    c.assume(box.e > 0)
    T = arrays.T(fdt)
    kw = {}
    sup = {}
    for nm, mode in (('posout', pmode), ('velout', vmode)):
        if mode == 'none':
            kw[nm] = None
        elif mode == 'false':
            kw[nm] = False
        else:
            sup[nm] = SArr((N * 3,) if mode == 'flat' else (N, 3), T, name=nm)
            kw[nm] = sup[nm]
    ret = R.unpack_rvint(data, box, float_dtype=T, **kw)
    conds = []
    for k, (nm, mode) in enumerate((('posout', pmode), ('velout', vmode))):
        if mode == 'false':
            conds.append(z3.BoolVal(isinstance(ret[k], int) and ret[k] == 0))
            continue
        if mode == 'none':
            arr = ret[k]
            conds.append(z3.BoolVal(arr.shape == (N, 3) and arr.dtype == T))
        else:
            arr = sup[nm].reshape(N, 3)
            conds.append(z3.BoolVal(ret[k] == N))
        for i in range(N):
            for j in range(3):
                w = common.cell(data, i, j).e
                got = common.cell(arr, i, j)
                if got is arrays.UNINIT:
                    c.report('violation', f'{nm}[{i},{j}] not written', key=f'rvint:{nm}:unwritten')
                    return
                conds.append(eq_real(got, o_pos(w, box.e) if nm == 'posout' else o_vel(w)))
    prove_each(c, conds, 'RVint decode: pos = signed upper 20 bits * box/1e6, vel = (lower 12 bits - 2048)*6000/2048',
               'rvint:decode')


def body_quantum():
    """Half-quantum recovery through the code's own decode term: a position x in
    [-box/2, box/2) whose nearest quantum index is q (20-bit signed), packed with any 12
    velocity bits, decodes to within box/(2e6); likewise the velocity."""
    c = ctx()
    c.extra['case'] = dict(kind='quantum')
    c.extra['sample'] = c.extra['case']
    box = Sym(c.input('box', z3.RealSort()))
    c.assume(box.e > 0)
    x = c.input('x', z3.RealSort())
    v = c.input('v', z3.RealSort())
    q = c.input('q', z3.BitVecSort(20))
    k = c.input('k', z3.BitVecSort(12))
    qi = z3.ToReal(z3.BV2Int(q, True))
    ki = z3.ToReal(z3.BV2Int(k, False))
    quant = box.e / 1000000
    vq = z3.RealVal('6000/2048')
    # the encoder's contract: q is a nearest quantum index of x, k-2048 a nearest one of v
    c.assume(z3.And(x >= -box.e / 2, x < box.e / 2, qi * quant - x <= quant / 2, x - qi * quant <= quant / 2))
    c.assume(z3.And(v >= -6000, v <= 6000 - vq, (ki - 2048) * vq - v <= vq / 2, v - (ki - 2048) * vq <= vq / 2))
    data = SArr((1, 3), 'i4', fill=None, name='rvint')
    for j in range(3):
        data[0, j] = Sym(z3.Concat(q, k), True)
    pos, vel = R.unpack_rvint(data, box)
    p, u = val(common.cell(pos, 0, 0)).as_real(), val(common.cell(vel, 0, 0)).as_real()
    c.prove(z3.And(p - x <= quant / 2, x - p <= quant / 2, u - v <= vq / 2, v - u <= vq / 2),
            'encoded position/velocity recovered to within half a quantum', key='rvint:quantum')


PIDF = ['pid', 'lagr_pos', 'tagged', 'density', 'lagr_idx']


def check_pid_outputs(c, arr, packed, N, box, ppd, fdt, what, key):
    conds = []
    T = arrays.T(fdt)
    for name, a in arr.items():
        if name == 'packedpid':
            continue
        shape = (N, 3) if name in ('lagr_pos', 'lagr_idx') else (N,)
        want_dt = {'pid': 'i8', 'lagr_pos': fdt, 'tagged': 'u1', 'density': fdt, 'lagr_idx': 'i2'}[name]
        conds.append(z3.BoolVal(a.shape == shape and a.dtype == arrays.T(want_dt)))
        for i in range(N):
            w = common.cell(packed, i).e
            for j in range(3 if len(shape) == 2 else 1):
                got = common.cell(a, i, j) if len(shape) == 2 else common.cell(a, i)
                if got is arrays.UNINIT:
                    c.report('violation', f'{name}[{i}] not written', key=key + ':unwritten')
                    return None
                if name == 'pid':
                    conds.append(eq_int(got, o_pid(w)))
                elif name == 'tagged':
                    conds.append(eq_int(got, o_tagged(w)))
                elif name == 'density':
                    conds.append(eq_real(got, o_density(w)))
                elif name == 'lagr_idx':
                    conds.append(eq_int(got, o_lagr_idx(w, j)))
                elif name == 'lagr_pos':
                    conds.append(eq_real(got, z3.ToReal(o_lagr_idx(w, j)) * box / z3.ToReal(ppd) - box / 2))
    return conds


def body_pids(N, flags, fdt, floatppd=False):
    c = ctx()
    c.extra['case'] = dict(kind='pids', N=N, flags=flags, float_dtype=fdt, floatppd=floatppd)
    c.extra['keyprefix'] = 'pids:'
    c.extra['sample'] = c.extra['case']
    packed = common.sym_array('packed', (N,), 'u8', bv=True)
    box = Sym(c.input('box', z3.RealSort()))
    ppd = Sym(c.input('ppd', z3.IntSort()))
    c.assume(z3.And(box.e > 0, ppd.e >= 1))
    ppd_arg = ppd
    if floatppd:
        # headers store ppd as the float cube root of the particle number: an integer up to a few ulp (here 1e-9) either way
        ppd_arg = Sym(c.input('ppdf', z3.RealSort()))
        c.assume(z3.And(ppd.e <= 100000, ppd_arg.e - z3.ToReal(ppd.e) <= z3.RealVal('1/1000000000'), z3.ToReal(ppd.e) - ppd_arg.e <= z3.RealVal('1/1000000000')))
    kw = {f: True for f in flags}
    need = 'lagr_pos' in flags
    arr = R.unpack_pids(packed, box=box if need else None, ppd=ppd_arg if need else None, float_dtype=arrays.T(fdt), **kw)
    if set(arr) != set(flags):
        c.report('violation', f'unpack_pids returned {sorted(arr)} for request {sorted(flags)}', key='pids:fields')
        return
    conds = check_pid_outputs(c, arr, packed, N, box.e, ppd.e, fdt, 'pids', 'pids')
    if conds is None:
        return
    prove_each(c, conds + [z3.BoolVal(True)], 'aux word fields: lagr_idx bits 0-14/16-30/32-46, lagr_pos, tagged bit 48, '
               'density=(bits 49-58)^2, pid with non-id bits cleared', 'pids:decode')


def body_bits(N, unpack_bits, fdt):
    """empty_bitpacked_arrays -> _unpack_pids, the path the halo catalogue takes."""
    c = ctx()
    c.extra['case'] = dict(kind='bits', N=N, unpack_bits=unpack_bits, float_dtype=fdt)
    c.extra['keyprefix'] = 'bits:'
    c.extra['sample'] = c.extra['case']
    packed = common.sym_array('packed', (N,), 'u8', bv=True)
    box = Sym(c.input('box', z3.RealSort()))
    ppd = Sym(c.input('ppd', z3.IntSort()))
    c.assume(z3.And(box.e > 0, ppd.e >= 1))
    arr = R.empty_bitpacked_arrays(N, unpack_bits, float_dtype=arrays.T(fdt))
    if unpack_bits is True:
        want = set(bp.PID_FIELDS)
    elif unpack_bits is False:
        want = {'pid'}
    elif isinstance(unpack_bits, str):
        want = {unpack_bits}
    else:
        want = set(unpack_bits)
    if set(arr) != want:
        c.report('violation', f'empty_bitpacked_arrays({unpack_bits!r}) made {sorted(arr)}', key='bits:fields')
        return
    if 'packedpid' in arr and not (arr['packedpid'].shape == (N,) and arr['packedpid'].dtype == arrays.T('u8')):
        c.report('violation', 'packedpid array has the wrong shape/dtype', key='bits:fields')
        return
    R._unpack_pids(packed, box, ppd, **{k: v for k, v in arr.items() if k != 'packedpid'})
    conds = check_pid_outputs(c, arr, packed, N, box.e, ppd.e, fdt, 'bits', 'bits')
    if conds is None:
        return
    prove_each(c, conds + [z3.BoolVal(True)], 'fields allocated by empty_bitpacked_arrays are decoded per the layout', 'bits:decode')


def items(tier, seed):
    out = []
    Ns = [0, 1, 2] if tier == 'quick' else [0, 1, 2, 3]
    for fdt in ('f4', 'f8'):
        for pm in ('none', 'false', 'supplied', 'flat'):
            for vm in ('none', 'false', 'supplied', 'flat'):
                out.append(dict(name=f'rvint/{fdt}/pos={pm}/vel={vm}', kind='rvint', Ns=Ns, pm=pm, vm=vm, fdt=fdt))
        for r in range(6):
            combos = [list(cmb) for cmb in itertools.combinations(PIDF, r)]
            out.append(dict(name=f'pids/{fdt}/flags={r}', kind='pids', Ns=Ns, fdt=fdt, combos=combos, expect_no_obligation=False))
        ub = [True, False] + bp.PID_FIELDS + [['lagr_idx', 'tagged'], ['pid', 'density', 'packedpid'], ['lagr_pos']]
        if tier == 'thorough':
            ub += [list(p) for p in itertools.combinations(bp.PID_FIELDS, 2)]
        out.append(dict(name=f'bits/{fdt}', kind='bits', Ns=Ns, fdt=fdt, ub=ub))
        out.append(dict(name=f'pids/{fdt}/float-ppd', kind='pids', Ns=[1], fdt=fdt, combos=[['lagr_pos'], ['lagr_pos', 'pid', 'lagr_idx']], floatppd=True))
    out.append(dict(name='rvint/quantum', kind='quantum'))
    out.append(dict(name='pids/errors', kind='errors'))
    return out


def run(item):
    acc = None

    def add(r):
        nonlocal acc
        if acc is None:
            acc = r
        else:
            for k in ('paths', 'queries', 'solver_s', 'proved', 'reached'):
                acc[k] += r[k]
            acc['events'] += r['events']
            acc['samples'] = (acc['samples'] + r['samples'])[:3]
            acc['assumptions'] = sorted(set(acc['assumptions']) | set(r['assumptions']))
            harness.merge_cov(acc['cov'], r['cov'])
    if item['kind'] == 'rvint':
        for N in item['Ns']:
            add(common.run_paths(lambda: body_rvint(N, item['pm'], item['vm'], item['fdt']), cov_funcs=FUNCS)[0])
    elif item['kind'] == 'pids':
        for N in item['Ns']:
            for flags in item['combos']:
                add(common.run_paths(lambda: body_pids(N, flags, item['fdt'], item.get('floatppd', False)), cov_funcs=FUNCS)[0])
    elif item['kind'] == 'bits':
        for N in item['Ns']:
            for ub in item['ub']:
                add(common.run_paths(lambda: body_bits(N, ub, item['fdt']), cov_funcs=FUNCS)[0])
    elif item['kind'] == 'errors':
        add(common.run_paths(body_errors, cov_funcs=FUNCS)[0])
    else:
        add(common.run_paths(body_quantum, cov_funcs=FUNCS)[0])
    return acc


RV_WORDS = [0, -1, -2 ** 31, 2 ** 31 - 1, 1 << 31 - 1, 0xFFF, 0x1000, -0x1000, 0x7FFFF000, -0x80000000 + 0xFFF, 123456789, -987654321]
AUX_WORDS = [0, 2 ** 64 - 1, 0x7FFF, 0x7FFF0000, 0x7FFF00000000, 1 << 48, 0x07FE000000000000, 1 << 15, 1 << 31, 1 << 47,
             1 << 59, 1 << 63, 0x8000800080000000, 0x0123456789ABCDEF, 0xFEDCBA9876543210, (1023 << 49) | (1 << 48) | 0x1234]


def validate(tier):
    """Engine (bit-vector constants through the same model of numba's promotion rules) vs the
    compiled kernels on boundary words."""
    n = 0
    box, ppd = 2000.0, 6912
    rv = real_np.array(RV_WORDS, dtype=real_np.int64).astype(real_np.int32).reshape(-1, 3)
    pos, vel = bp.unpack_rvint(rv, box, float_dtype=real_np.float64)
    aux = real_np.array(AUX_WORDS, dtype=real_np.uint64)
    ref = bp.unpack_pids(aux, box=box, ppd=ppd, pid=True, lagr_pos=True, tagged=True, density=True, lagr_idx=True,
                         float_dtype=real_np.float64)

    def body():
        d = SArr(rv.shape, 'i4', fill=None)
        for idx in real_np.ndindex(*rv.shape):
            d[idx] = Sym(z3.BitVecVal(int(rv[idx]), 32), True)
        p, v = R.unpack_rvint(d, box, float_dtype=arrays.T('f8'))
        a = SArr(aux.shape, 'u8', fill=None)
        for i in range(len(aux)):
            a[i] = Sym(z3.BitVecVal(int(aux[i]), 64), False)
        out = R.unpack_pids(a, box=box, ppd=ppd, pid=True, lagr_pos=True, tagged=True, density=True, lagr_idx=True,
                            float_dtype=arrays.T('f8'))

        def conc(x):
            x = core.lift(x)
            e = z3.simplify(x.as_real() if x.kind != 'v' else z3.ToReal(x.as_int()))
            return float(common.fr(core._pyval(e)))
        return ([conc(x) for x in common.cells(p)], [conc(x) for x in common.cells(v)],
                {k: [conc(x) for x in common.cells(o)] for k, o in out.items()})
    res = core.explore(body)
    assert len(res) == 1 and res[0].exc is None, res[0].exc
    p, v, out = res[0].ret
    assert real_np.allclose(p, pos.ravel(), rtol=1e-12, atol=0), (p, pos.ravel())
    assert real_np.allclose(v, vel.ravel(), rtol=1e-12, atol=0)
    n += rv.size
    for k in ref:
        assert real_np.allclose(out[k], ref[k].ravel().astype(float), rtol=1e-12, atol=1e-9), (k, out[k], ref[k])
    n += len(aux) * len(ref)
    return n


def replay(e, path):
    i = e['info'].get('case', {})
    m = e.get('model', {})
    kind = i.get('kind')
    body = f'''
import abacusnbody.data.bitpacked as bp
m = {m!r}
case = {i!r}
from fractions import Fraction as F
bad = []
box = float(F(m.get('box', 1)))
if case.get('kind') == 'rvint':
    N = case['N']
    w = np.array([[m.get(f'rvint[{{i}},{{j}}]', 0) for j in range(3)] for i in range(N)], dtype=np.uint32).astype(np.int32).reshape(N, 3)
    fd = np.dtype(case['float_dtype']).type
    kw = {{}}
    for nm in ('posout', 'velout'):
        mode = case[nm]
        kw[nm] = None if mode == 'none' else False if mode == 'false' else np.full((N * 3,) if mode == 'flat' else (N, 3), np.nan, dtype=fd)
    ret = bp.unpack_rvint(w, box, float_dtype=fd, **kw)
    ww = w.astype(np.int64)
    epos = (ww >> 12) * (box / 1e6)
    evel = ((ww & 0xFFF) - 2048) * (6000.0 / 2048)
    for k, (nm, exp) in enumerate((('posout', epos), ('velout', evel))):
        mode = case[nm]
        if mode == 'false':
            continue
        got = ret[k] if mode == 'none' else kw[nm].reshape(N, 3)
        if not np.allclose(got, exp, rtol=1e-6, atol=0, equal_nan=False):
            bad.append(f'{{nm}}: got {{got.tolist()}} expected {{exp.tolist()}} for words {{[hex(int(x) & 0xFFFFFFFF) for x in w.ravel()]}}')
else:
    N = case['N']
    ppd = int(m.get('ppd', 1))
    ppd_arg = float(F(m['ppdf'])) if (case.get('floatppd') and 'ppdf' in m) else ppd
    w = np.array([m.get(f'packed[{{i}}]', 0) for i in range(N)], dtype=np.uint64)
    fd = np.dtype(case['float_dtype']).type
    if case.get('kind') == 'pids':
        need = 'lagr_pos' in case['flags']
        try:
            arr = bp.unpack_pids(w, box=box if need else None, ppd=ppd_arg if need else None, float_dtype=fd, **{{f: True for f in case['flags']}})
        except Exception as ex:
            bad.append(f'unpack_pids(ppd={{ppd_arg!r}}) raised {{type(ex).__name__}}: {{ex}}'); arr = {{}}
        if not bad and set(arr) != set(case['flags']): bad.append(f'fields {{sorted(arr)}}')
    else:
        arr = bp.empty_bitpacked_arrays(N, case['unpack_bits'], float_dtype=fd)
        bp._unpack_pids(w, box, ppd, float_dtype=fd, **{{k: v for k, v in arr.items() if k != 'packedpid'}})
    wi = [int(x) for x in w]
    exp = dict(
        pid=[x & 0x7FFF7FFF7FFF for x in wi], tagged=[(x >> 48) & 1 for x in wi], density=[float(((x >> 49) & 1023) ** 2) for x in wi],
        lagr_idx=[[(x >> s) & 0x7FFF for s in (0, 16, 32)] for x in wi],
        lagr_pos=[[((x >> s) & 0x7FFF) * box / ppd - box / 2 for s in (0, 16, 32)] for x in wi])
    for k, a in arr.items():
        if k == 'packedpid': continue
        if not np.allclose(np.asarray(a, dtype=float), np.asarray(exp[k], dtype=float).reshape(a.shape), rtol=1e-5, atol=1e-6 * box):
            bad.append(f'{{k}}: got {{a.tolist()}} expected {{exp[k]}} for words {{[hex(x) for x in wi]}}')
print('case', case)
for b in bad: print('  ', b)
sys.exit(1 if bad else 0)
'''
    return common.write_replay(path, body)


if __name__ == '__main__':
    sys.exit(harness.main(__import__('checks.c04', fromlist=['x'])))
