"""Shared harness for C09 / C10: the real GRAND_HOD.gen_gals -> gen_cent / gen_sats /
fast_concatenate run end to end on symbolic halo and particle tables.

The six mean-occupation functions are replaced by uninterpreted functions of their
arguments (the property defines slice widths as 'the package's mean-occupation functions at
the host mass and secondary ranks': which function is called on which arguments is the
content; their bodies are checked separately in C09's 'occupation' items).  Inlined
(erfc of a quotient times a Gaussian) the first feasibility query did not return in 20 min."""
import numpy as real_np
import z3
from checks import common
from checks.common import Sym, SArr, ctx, core, arrays, rebind, harness
from symnb import npshim
import abacusnbody.hod.GRAND_HOD as gh

OCC = ['n_cen_LRG', 'N_cen_ELG_v1', 'N_cen_QSO', 'n_sat_LRG_modified', 'N_sat_elg', 'N_sat_generic']


def occ_stub(name, nargs_full):
    def f(*a, **k):
        if k:
            raise core.ModelGap(f'{name} called with keywords')
        c = ctx()
        v = core.uf(name + f'_{len(a)}', *a)
        memo = c.extra.setdefault('occ_nonneg', set())
        if v.e.get_id() not in memo:
            memo.add(v.e.get_id())
            c.add(v.e >= 0)     # mean occupations are non-negative (slice widths >= 0)
        return v
    f.__name__ = name
    return f


class DictShim:
    @staticmethod
    def empty(*a, **k):
        return {}


def make_ns():
    R = rebind.Rebound(gh, overrides={n: occ_stub(n, 0) for n in OCC})
    R.set_global('Dict', DictShim)
    return R


R = make_ns()
RREAL = rebind.Rebound(gh)      # with the real occupation bodies (for the 'occupation' items)
FUNCS = [gh.gen_cent, gh.gen_sats, gh.fast_concatenate, gh.gen_gals, gh.wrap]

CEN_PARAMS = {'LRG': ['logM_cut', 'sigma', 'ic', 'alpha_c', 'Acent', 'Bcent'],
              'ELG': ['p_max', 'Q', 'logM_cut', 'sigma', 'gamma', 'alpha_c', 'Acent', 'Bcent', 'Ccent', 'ic'],
              'QSO': ['logM_cut', 'sigma', 'alpha_c', 'Acent', 'Bcent', 'ic']}
SAT_PARAMS = {'LRG': ['logM1', 'alpha', 'kappa', 'alpha_s', 's', 's_v', 's_p', 's_r', 'Asat', 'Bsat'],
              'ELG': ['kappa', 'logM1', 'alpha', 'A_s', 'alpha_s', 's', 's_v', 's_p', 's_r', 'Asat', 'Bsat', 'Csat',
                      'logM1_EE', 'alpha_EE', 'logM1_EL', 'alpha_EL'],
              'QSO': ['kappa', 'logM1', 'alpha', 'alpha_s', 's', 's_v', 's_p', 's_r', 'Asat', 'Bsat']}


def real_in(c, name):
    return Sym(c.input(name, z3.RealSort()))


def build_inputs(c, H, P, tracers, want_AB=True, want_shear=True):
    """symbolic halo table (H rows) and particle table (P rows) + HOD parameter dicts"""
    hd = dict(hpos=common.sym_array('hpos', (H, 3), 'f4'), hvel=common.sym_array('hvel', (H, 3), 'f4'),
              hmass=common.sym_array('hmass', (H,), 'f4'), hid=common.sym_array('hid', (H,), 'i8'),
              hmultis=common.sym_array('hmultis', (H,), 'f4'), hrandoms=common.sym_array('hrandoms', (H,), 'f4'),
              hveldev=common.sym_array('hveldev', (H, 3), 'f4'))
    if want_AB:
        hd['hdeltac'] = common.sym_array('hdeltac', (H,), 'f4')
        hd['hfenv'] = common.sym_array('hfenv', (H,), 'f4')
    if want_shear:
        hd['hshear'] = common.sym_array('hshear', (H,), 'f4')
    pd = dict(ppos=common.sym_array('ppos', (P, 3), 'f4'), pvel=common.sym_array('pvel', (P, 3), 'f4'),
              phvel=common.sym_array('phvel', (P, 3), 'f4'), phmass=common.sym_array('phmass', (P,), 'f4'),
              phid=common.sym_array('phid', (P,), 'i8'), pweights=common.sym_array('pweights', (P,), 'f4'),
              prandoms=common.sym_array('prandoms', (P,), 'f4'))
    if want_AB:
        pd['pdeltac'] = common.sym_array('pdeltac', (P,), 'f4')
        pd['pfenv'] = common.sym_array('pfenv', (P,), 'f4')
    if want_shear:
        pd['pshear'] = common.sym_array('pshear', (P,), 'f4')
    for k in ('pranks', 'pranksv', 'pranksp', 'pranksr', 'pranksc'):
        pd[k] = common.sym_array(k, (P,), 'f4')
    # particle -> host index: free in [0, H) (fork) -- concrete per path
    pinds = SArr((P,), 'i8', fill=None, name='pinds')
    for p in range(P):
        v = Sym(c.input(f'pinds[{p}]', z3.IntSort()))
        c.assume(z3.And(v.e >= 0, v.e < max(H, 1)))
        real_np.ndarray.__setitem__(pinds, p, c.concretize(v.e, what='pinds') if H else 0)
    pd['pinds'] = pinds
    tr = {}
    for t in tracers:
        d = {}
        for k in CEN_PARAMS[t] + SAT_PARAMS[t]:
            d[k] = real_in(c, f'{t}.{k}')
            if k.startswith('logM'):
                # log10 masses in a range where 10**x is an ordinary double (witnesses must be replayable with the real pow)
                c.assume(z3.And(d[k].e >= 8, d[k].e <= 16))
        tr[t] = d
    # non-negativity of the multiplicative factors of a slice width
    for t in tracers:
        c.assume(tr[t]['ic'].e >= 0)
    for v in common.cells(hd['hmultis']) + common.cells(pd['pweights']):
        c.assume(v.e >= 0)
    for v in common.cells(hd['hrandoms']) + common.cells(pd['prandoms']):
        c.assume(z3.And(v.e >= 0, v.e <= 1))
    return hd, pd, tr


def decorator(tr, pd, p, enable_ranks):
    if not enable_ranks:
        return None
    g = lambda k: common.cell(pd[k], p)
    return 1 + tr['s'] * g('pranks') + tr['s_v'] * g('pranksv') + tr['s_p'] * g('pranksp') + tr['s_r'] * g('pranksr')


def cen_width(t, tr, hd, i):
    g = lambda k: common.cell(hd[k], i) if k in hd else 0.0
    d = tr[t]
    M = g('hmass')
    if t == 'LRG':
        lc = d['logM_cut'] + d['Acent'] * g('hdeltac') + d['Bcent'] * g('hfenv')
        f = core.uf('n_cen_LRG_3', M, lc, d['sigma'])
    elif t == 'ELG':
        lc = d['logM_cut'] + d['Acent'] * g('hdeltac') + d['Bcent'] * g('hfenv') + d['Ccent'] * g('hshear')
        f = core.uf('N_cen_ELG_v1_6', M, d['p_max'], d['Q'], lc, d['sigma'], d['gamma'])
    else:
        lc = d['logM_cut'] + d['Acent'] * g('hdeltac') + d['Bcent'] * g('hfenv')
        f = core.uf('N_cen_QSO_3', M, lc, d['sigma'])
    return f * d['ic'] * g('hmultis')


def sat_width(t, tr, pd, p, enable_ranks, kc):
    g = lambda k: common.cell(pd[k], p) if k in pd else 0.0
    d = tr[t]
    M = g('phmass')
    ten = lambda x: core.sym_pow(core.lift(10), core.lift(x))
    if t == 'LRG':
        M1 = ten(d['logM1'] + d['Asat'] * g('pdeltac') + d['Bsat'] * g('pfenv'))
        lc = d['logM_cut'] + d['Acent'] * g('pdeltac') + d['Bcent'] * g('pfenv')
        base = core.uf('n_sat_LRG_modified_7', M, lc, ten(lc), M1, d['sigma'], d['alpha'], d['kappa']) * g('pweights') * d['ic']
    elif t == 'ELG':
        lc = d['logM_cut'] + d['Acent'] * g('pdeltac') + d['Bcent'] * g('pfenv') + d['Ccent'] * g('pshear')
        if kc == 1:       # conformity: host has an LRG central
            M1 = ten(d['logM1_EL'] + d['Asat'] * g('pdeltac') + d['Bsat'] * g('pfenv'))
            al = d['alpha_EL']
        elif kc == 2:     # host has an ELG central
            M1 = ten(d['logM1_EE'] + d['Asat'] * g('pdeltac') + d['Bsat'] * g('pfenv'))
            al = d['alpha_EE']
        else:
            M1 = ten(d['logM1'] + d['Asat'] * g('pdeltac') + d['Bsat'] * g('pfenv') + d['Csat'] * g('pshear'))
            al = d['alpha']
        base = core.uf('N_sat_elg_6', M, ten(lc), d['kappa'], M1, al, d['A_s']) * g('pweights') * d['ic']
    else:
        M1 = ten(d['logM1'] + d['Asat'] * g('pdeltac') + d['Bsat'] * g('pfenv'))
        lc = d['logM_cut'] + d['Acent'] * g('pdeltac') + d['Bcent'] * g('pfenv')
        base = core.uf('N_sat_generic_5', M, ten(lc), d['kappa'], M1, d['alpha']) * g('pweights') * d['ic']
    dec = decorator(d, pd, p, enable_ranks)
    return base * dec if dec is not None else base


ORDER = ['LRG', 'ELG', 'QSO']


def exclude_ties(c, hd, pd, tr, tracers, enable_ranks, H, P):
    """The property does not fix open/closed slice ends, so randoms that coincide with a slice
    edge (0 included) are excluded up front.  For satellites the ELG width depends on the host's
    central (conformity); the edges of all three variants are excluded."""
    why = 'randoms do not coincide with a slice edge, 0 included (the property does not fix open/closed ends)'
    enabled = [(ORDER.index(t) + 1, t) for t in ORDER if t in tracers]
    cs = []
    for i in range(H):
        r = core.lift(common.cell(hd['hrandoms'], i))
        lo = core.lift(0.0)
        cs.append(r != lo)
        for k, t in enabled:
            lo = lo + cen_width(t, tr, hd, i)
            cs.append(r != lo)
    for p in range(P):
        r = core.lift(common.cell(pd['prandoms'], p))
        cs.append(r != 0.0)
        for kc in ((0, 1, 2) if 'ELG' in tracers else (0,)):
            lo = core.lift(0.0)
            for k, t in enabled:
                lo = lo + sat_width(t, tr, pd, p, enable_ranks, kc)
                cs.append(r != lo)
    c.assume_all(cs, why)


def classify(c, r, widths):
    """Which tracer's slice contains the random r, on this path (ties excluded by assumption):
    returns the tracer index 1..3 or 0.  widths: list of (tracer index, width term) in LRG, ELG,
    QSO order for the ENABLED tracers."""
    lo = core.lift(0.0)
    for k, w in widths:
        hi = lo + w
        inside = bool(core.lift(r) < hi)      # forks only if the code's own comparisons left it undecided
        if inside:
            return k
        lo = hi
    return 0


def wrapped(c, z, L, what):
    """oracle for the periodic wrap into [-L/2, L/2): the value differs from z by a whole box"""
    return z


def optional_defaults():
    """{tracer: {key: default}} for every ``X_HOD.get('key', default)`` in the CURRENT source of gen_gals; a default is a number,
    ('key', other_key) when it is the tracer's own effective value of another key, or ('param', name)"""
    import ast
    import inspect
    import textwrap
    f = getattr(gh.gen_gals, 'py_func', gh.gen_gals)
    out = {}
    for n in ast.walk(ast.parse(textwrap.dedent(inspect.getsource(f)))):
        if (isinstance(n, ast.Call) and isinstance(n.func, ast.Attribute) and n.func.attr in ('get', 'setdefault', 'pop') and isinstance(n.func.value, ast.Name)
                and n.func.value.id.endswith('_HOD') and len(n.args) == 2 and isinstance(n.args[0], ast.Constant)):
            t, k, d = n.func.value.id[:-4], n.args[0].value, n.args[1]
            if isinstance(d, ast.Constant) and isinstance(d.value, (int, float)):
                v = float(d.value)
            elif isinstance(d, ast.Subscript) and isinstance(d.value, ast.Name) and isinstance(d.slice, ast.Constant):
                v = ('param', d.slice.value) if d.value.id == 'params' else ('key', d.slice.value)
            else:
                continue
            out.setdefault(t, {})[k] = v
    return out


def run_gen_gals(c, H, P, tracers, rsd, origin_kind, enable_ranks, Nthread, want_AB=True, want_shear=True, drop_optional=False):
    """Runs the real gen_gals and returns everything the oracles need.  ``drop_optional``: the caller's dictionaries omit every
    key the generator reads with a default; the oracle's dictionaries carry the default values instead."""
    c.extra['abstract_products'] = True
    hd, pd, tr = build_inputs(c, H, P, tracers, want_AB, want_shear)
    dropped = {t: [] for t in tracers}
    if drop_optional:
        dflt = optional_defaults()
        for t in tracers:
            for k, v in dflt.get(t, {}).items():
                if k in tr[t] and not (isinstance(v, tuple) and v[0] == 'param'):
                    dropped[t].append(k)
        for t in tracers:
            for k in dropped[t]:
                v = dflt[t][k]
                tr[t][k] = tr[t][v[1]] if isinstance(v, tuple) else v
        if isinstance(c.extra.get('case'), dict):
            c.extra['case']['dropped'] = {t: list(dropped[t]) for t in tracers}
    params = dict(z=0.5, velz2kms=real_in(c, 'velz2kms'), Lbox=real_in(c, 'Lbox'), Mpart=real_in(c, 'Mpart'),
                  origin=None)
    c.assume(z3.And(params['velz2kms'].e > 0, params['Lbox'].e > 0))
    if origin_kind == 'origin':
        o = SArr((3,), 'f8', fill=None, name='origin')
        for j in range(3):
            real_np.ndarray.__setitem__(o, j, real_in(c, f'origin[{j}]'))
        params['origin'] = o
    exclude_ties(c, hd, pd, tr, tracers, enable_ranks, H, P)
    rebind.NB.reset(8)
    tr_in = {t: {k: v for k, v in tr[t].items() if k not in dropped[t]} for t in tracers}
    tr_ref = {t: dict(tr_in[t]) for t in tracers}
    par_in = dict(params)
    out = R.gen_gals(hd, pd, tr_in, par_in, Nthread, enable_ranks, rsd, False, False)
    # frame condition: the caller's tracer / parameter dictionaries come back as they went in (fits call the generator again and
    # again with the same dictionaries, changing a few entries in between: anything written into them leaks into the next call)
    def same_dict(a, b):
        return list(a) == list(b) and all((a[k] is b[k]) or (not isinstance(a[k], (Sym, real_np.ndarray)) and not isinstance(b[k], (Sym, real_np.ndarray)) and a[k] == b[k]) for k in a)
    untouched = same_dict(par_in, params) and list(tr_in) == list(tracers) and all(same_dict(tr_in[t], tr_ref[t]) for t in tracers)
    changed = sorted(f'{t}.{k}' for t in tracers for k in set(tr_in[t]) ^ set(tr_ref[t])) + sorted(f'{t}.{k}' for t in tracers for k in set(tr_in[t]) & set(tr_ref[t])
                                                                                                  if tr_in[t][k] is not tr_ref[t][k] and isinstance(tr_ref[t][k], Sym))
    c.prove(z3.BoolVal(bool(untouched)), 'gen_gals leaves the caller\'s tracer and parameter dictionaries unchanged (no state carried into the next call)',
            key='hod:inputs-unmodified', info=dict(changed=changed[:8], tracers=list(tracers), dropped={t: dropped[t] for t in tracers}))
    return hd, pd, tr, params, out


def expected_catalogue(c, hd, pd, tr, params, tracers, rsd, enable_ranks, H, P):
    """Sequential reference: galaxies in host order (centrals), then particle order (satellites),
    built from the property's rule; does not mention the thread count."""
    inv = 1 / params['velz2kms']
    L = params['Lbox']
    origin = params['origin']
    enabled = [(ORDER.index(t) + 1, t) for t in ORDER if t in tracers]
    cat = {t: dict(cent=[], sat=[]) for t in tracers}
    keep_c = []
    for i in range(H):
        widths = [(k, cen_width(t, tr, hd, i)) for k, t in enabled]
        k = classify(c, common.cell(hd['hrandoms'], i), widths)
        keep_c.append(k)
        if k:
            t = ORDER[k - 1]
            pos = [common.cell(hd['hpos'], i, j) for j in range(3)]
            vel = [common.cell(hd['hvel'], i, j) + tr[t]['alpha_c'] * common.cell(hd['hveldev'], i, j) for j in range(3)]
            cat[t]['cent'].append(dict(pos=pos, vel=vel, mass=common.cell(hd['hmass'], i), id=common.cell(hd['hid'], i)))
    for p in range(P):
        kc = keep_c[int(common.cell(pd['pinds'], p))] if H else 0
        widths = [(k, sat_width(t, tr, pd, p, enable_ranks, kc)) for k, t in enabled]
        k = classify(c, common.cell(pd['prandoms'], p), widths)
        if k:
            t = ORDER[k - 1]
            pos = [common.cell(pd['ppos'], p, j) for j in range(3)]
            hv = [common.cell(pd['phvel'], p, j) for j in range(3)]
            vel = [hv[j] + tr[t]['alpha_s'] * (common.cell(pd['pvel'], p, j) - hv[j]) for j in range(3)]
            cat[t]['sat'].append(dict(pos=pos, vel=vel, mass=common.cell(pd['phmass'], p), id=common.cell(pd['phid'], p)))
    return cat, keep_c


def check_catalogue(c, out, cat, params, tracers, rsd, keyp):
    """Prove the real output equal to the reference; returns False on a structural mismatch."""
    inv = 1 / params['velz2kms']
    L = params['Lbox']
    origin = params['origin']
    ok = True
    for t in tracers:
        d = out[t]
        rows = cat[t]['cent'] + cat[t]['sat']
        n = len(rows)
        struct = int(d['Ncent']) == len(cat[t]['cent']) and all(len(d[k]) == n for k in ('x', 'y', 'z', 'vx', 'vy', 'vz', 'mass', 'id'))
        ok = c.prove(z3.BoolVal(struct), f'{t}: one galaxy per selected host, centrals first, Ncent = number of centrals',
                     key=keyp + ':rows', info=dict(tracer=t, expected_rows=n, got_rows=len(d['x']), Ncent=int(d['Ncent']))) and ok
        if not struct:
            continue
        for r, row in enumerate(rows):
            got = {k: common.cell(d[k], r) for k in ('x', 'y', 'z', 'vx', 'vy', 'vz', 'mass', 'id')}
            if any(v is arrays.UNINIT for v in got.values()):
                c.report('violation', f'{t} row {r} has an unwritten column', key=keyp + ':unwritten')
                ok = False
                continue
            eq = lambda a, b: core._b(core.lift(a) == core.lift(b))
            conds = [eq(got['mass'], row['mass']), eq(got['id'], row['id'])]
            conds += [eq(got['v' + ax], row['vel'][j]) for j, ax in enumerate('xyz')]
            ok = c.prove(z3.And(conds), f'{t}: galaxy carries its host id and mass and the velocity-bias velocity', key=keyp + ':hostvel') and ok
            gp = [got['x'], got['y'], got['z']]
            if not rsd:
                ok = c.prove(z3.And([eq(gp[j], row['pos'][j]) for j in range(3)]), f'{t}: galaxy sits at the host (particle) position', key=keyp + ':pos') and ok
            elif origin is None:
                zz = core.lift(row['pos'][2] + row['vel'][2] * inv).as_real()
                g = core.lift(gp[2]).as_real()
                Lr = L.e
                # documented regime: the shifted coordinate is within one box of the domain
                pre = z3.And(zz >= -3 * Lr / 2, zz < 3 * Lr / 2)
                post = z3.And(eq(gp[0], row['pos'][0]), eq(gp[1], row['pos'][1]),
                              z3.Or(g == zz, g == zz - Lr, g == zz + Lr), g >= -Lr / 2, g < Lr / 2)
                ok = c.prove(z3.Implies(pre, post), f'{t}: RSD moves only z, by v_z/velz2kms, wrapped into [-L/2, L/2)', key=keyp + ':rsd') and ok
            else:
                o = [common.cell(origin, j) for j in range(3)]
                nvec = [row['pos'][j] - o[j] for j in range(3)]
                norm = npshim.sqrt(nvec[0] * nvec[0] + nvec[1] * nvec[1] + nvec[2] * nvec[2])
                invn = 1.0 / norm
                nhat = [nvec[j] * invn for j in range(3)]
                proj = inv * (row['vel'][0] * nhat[0] + row['vel'][1] * nhat[1] + row['vel'][2] * nhat[2])
                ok = c.prove(z3.And([eq(gp[j], row['pos'][j] + proj * nhat[j]) for j in range(3)]),
                             f'{t}: light-cone RSD moves the galaxy along the unit line of sight by v_los/velz2kms', key=keyp + ':rsd_los') and ok
    return ok


# ----------------------------------------------------------------------------------------------
# translator validation and replay

def _concrete_tables(rng, H, P):
    hd = dict(hpos=rng.random((H, 3)) * 100 - 50, hvel=rng.normal(size=(H, 3)) * 300, hmass=10 ** rng.uniform(12.5, 14.5, H),
              hid=real_np.arange(H, dtype=real_np.int64) * 7 + 3, hmultis=real_np.ones(H), hrandoms=rng.random(H),
              hveldev=rng.normal(size=(H, 3)) * 100, hdeltac=rng.random(H) - 0.5, hfenv=rng.random(H) - 0.5, hshear=rng.random(H) - 0.5)
    pd = dict(ppos=rng.random((P, 3)) * 100 - 50, pvel=rng.normal(size=(P, 3)) * 300, phvel=rng.normal(size=(P, 3)) * 300,
              phmass=10 ** rng.uniform(12.5, 14.5, P), phid=real_np.arange(P, dtype=real_np.int64), pweights=rng.random(P) * 5,
              prandoms=rng.random(P), pdeltac=rng.random(P) - 0.5, pfenv=rng.random(P) - 0.5, pshear=rng.random(P) - 0.5,
              pranks=rng.random(P) - 0.5, pranksv=rng.random(P) - 0.5, pranksp=rng.random(P) - 0.5, pranksr=rng.random(P) - 0.5,
              pranksc=rng.random(P) - 0.5, pinds=rng.integers(0, max(H, 1), P))
    return hd, pd


TRACERS_NUM = {
    'LRG': dict(logM_cut=13.0, logM1=14.0, sigma=0.5, alpha=1.0, kappa=0.5, alpha_c=0.2, alpha_s=0.9, s=0.1, s_v=0.0, s_p=0.0, s_r=0.0,
                Acent=0.1, Asat=0.0, Bcent=-0.1, Bsat=0.05, ic=0.9),
    'ELG': dict(p_max=0.4, Q=100.0, logM_cut=12.2, kappa=1.0, sigma=0.6, logM1=13.5, alpha=0.9, gamma=4.0, A_s=1.0, alpha_c=0.1, alpha_s=1.0,
                s=0.0, s_v=0.1, s_p=0.0, s_r=0.0, Acent=0.0, Asat=0.1, Bcent=0.05, Bsat=0.0, Ccent=0.0, Csat=0.0, ic=1.0,
                logM1_EE=13.0, alpha_EE=0.8, logM1_EL=13.2, alpha_EL=0.7),
    'QSO': dict(logM_cut=12.5, kappa=1.0, sigma=0.4, logM1=15.0, alpha=1.0, alpha_c=0.0, alpha_s=1.0, s=0.0, s_v=0.0, s_p=0.0, s_r=0.1,
                Acent=0.0, Asat=0.0, Bcent=0.0, Bsat=0.0, ic=0.5),
}


def validate():
    """engine in concrete mode (real occupation bodies, real math) vs the compiled
    gen_gals/gen_cent/gen_sats/fast_concatenate for two thread counts"""
    n = 0
    rng = real_np.random.default_rng(11)
    H, P = 7, 9
    hd, pd = _concrete_tables(rng, H, P)
    params = dict(z=0.5, velz2kms=900.0, Lbox=100.0, Mpart=2e9, origin=None)
    tracers = {t: dict(TRACERS_NUM[t]) for t in ('LRG', 'ELG', 'QSO')}
    for nt in (1, 3):
        ref = gh.gen_gals({k: v.copy() for k, v in hd.items()}, {k: v.copy() for k, v in pd.items()}, tracers, params, nt, True, True, False, False)

        def body():
            rebind.NB.reset(8)
            ctx().extra['concrete_sqrt'] = True
            shd = {k: arrays.as_sarr(v) for k, v in hd.items()}
            spd = {k: arrays.as_sarr(v) for k, v in pd.items()}
            out = RREAL.gen_gals(shd, spd, {t: dict(d) for t, d in tracers.items()}, params, nt, True, True, False, False)
            return {t: {k: ([float(x) for x in common.cells(v)] if k != 'Ncent' else int(v)) for k, v in d.items()} for t, d in out.items()}
        RREAL.set_global('Dict', DictShim)
        res = core.explore(body)
        assert len(res) == 1 and res[0].exc is None, (res[0].exc, res[0].events)
        for t in tracers:
            assert int(ref[t]['Ncent']) == res[0].ret[t]['Ncent'], (t, nt)
            for k in ('x', 'y', 'z', 'vx', 'vy', 'vz', 'mass', 'id'):
                assert real_np.allclose(real_np.asarray(ref[t][k], dtype=float), res[0].ret[t][k], rtol=1e-9, atol=1e-9), (t, k, nt)
                n += 1
    return n


def replay(e, path):
    i = e['info'].get('case', {})
    m = e.get('model', {})
    body_ = f'''
# The real gen_gals / gen_cent / gen_sats / fast_concatenate bodies are executed by CPython on
# real numpy arrays (interpreted py_func, no symbolic engine).  The six mean-occupation functions
# are stand-ins that return the values the solver chose for them (the property treats them as
# given functions of their arguments; their own bodies are checked separately).
import types, math
from fractions import Fraction as F
import abacusnbody.hod.GRAND_HOD as gh
m = {m!r}
case = {i!r}
UF = m.get('__uf__', {{}})
def fl(v): return float(F(v)) if not isinstance(v, bool) else float(v)
def standin(name):
    def f(*a):
        tab = UF.get(f'{{name}}_{{len(a)}}')
        if not tab: return 0.5
        best, bd = None, None
        for args, val in tab['entries']:
            d = sum(abs(fl(x) - float(y)) / (1 + abs(float(y))) for x, y in zip(args, a))
            if bd is None or d < bd: best, bd = val, d
        return fl(best) if (bd is not None and bd < 1e-6) else fl(tab['default'])
    return f
class NB:
    class config: NUMBA_NUM_THREADS = 64
    class typed:
        class Dict:
            @staticmethod
            def empty(*a, **k): return {{}}
    types = gh.nb.types
    @staticmethod
    def set_num_threads(n): pass
    @staticmethod
    def prange(*a): return range(*a)
class DictShim:
    @staticmethod
    def empty(*a, **k): return {{}}
class MathUF:
    def __getattr__(self, k): return getattr(math, k)
G = dict(gh.__dict__)
G.update(numba=NB, nb=NB, Dict=DictShim)
for nme in ['n_cen_LRG', 'N_cen_ELG_v1', 'N_cen_QSO', 'n_sat_LRG_modified', 'N_sat_elg', 'N_sat_generic']:
    G[nme] = standin(nme)
def pw(a, b):
    tab = UF.get('pow_2')
    return standin('pow')(a, b) if tab else a ** b
for nme in ['gen_cent', 'gen_sats', 'fast_concatenate', 'wrap', 'gen_gals']:
    f = getattr(gh, nme); f = getattr(f, 'py_func', f)
    G[nme] = types.FunctionType(f.__code__, G, nme, f.__defaults__, f.__closure__)
H, P, tracers = case['H'], case['P'], case['tracers']
def arr(name, shape, dt=float):
    a = np.zeros(shape, dtype=dt)
    for idx in np.ndindex(*a.shape):
        a[idx] = fl(m.get(name + '[' + ','.join(map(str, idx)) + ']', 0))
    return a
hd = dict(hpos=arr('hpos', (H, 3)), hvel=arr('hvel', (H, 3)), hmass=arr('hmass', (H,)), hid=arr('hid', (H,), np.int64), hmultis=arr('hmultis', (H,)),
          hrandoms=arr('hrandoms', (H,)), hveldev=arr('hveldev', (H, 3)), hdeltac=arr('hdeltac', (H,)), hfenv=arr('hfenv', (H,)), hshear=arr('hshear', (H,)))
pd = dict(ppos=arr('ppos', (P, 3)), pvel=arr('pvel', (P, 3)), phvel=arr('phvel', (P, 3)), phmass=arr('phmass', (P,)), phid=arr('phid', (P,), np.int64),
          pweights=arr('pweights', (P,)), prandoms=arr('prandoms', (P,)), pdeltac=arr('pdeltac', (P,)), pfenv=arr('pfenv', (P,)), pshear=arr('pshear', (P,)),
          pinds=arr('pinds', (P,), np.int64))
for k in ('pranks', 'pranksv', 'pranksp', 'pranksr', 'pranksc'): pd[k] = arr(k, (P,))
tr = {{t: {{k.split('.', 1)[1]: fl(v) for k, v in m.items() if k.startswith(t + '.')}} for t in tracers}}
DROPPED = case.get('dropped') or {{}}
tr_call = {{t: {{k: v for k, v in d.items() if k not in DROPPED.get(t, [])}} for t, d in tr.items()}}      # what the caller passes (optional keys left out)
params = dict(z=0.5, velz2kms=fl(m.get('velz2kms', 1)), Lbox=fl(m.get('Lbox', 1)), Mpart=fl(m.get('Mpart', 1)), origin=None)
if case.get('observer') == 'origin': params['origin'] = np.array([fl(m.get(f'origin[{{j}}]', 0)) for j in range(3)])
rsd, ranks = case['rsd'], case['ranks']
# NOTE 10**x inside gen_sats uses real pow; satellite widths go through the stand-ins, which match on their other arguments
def run(nt):
    return G['gen_gals']({{k: v.copy() for k, v in hd.items()}}, {{k: v.copy() for k, v in pd.items()}}, {{t: dict(d) for t, d in tr_call.items()}}, params, nt, ranks, rsd, False, False)
bad = []
try:
    out = run(case['Nthread'])
except Exception as ex:
    import traceback; traceback.print_exc()
    bad.append(f'gen_gals raised {{type(ex).__name__}}: {{ex}}'); out = None
# the property itself, on the real function bodies: every column, the row order and Ncent are the same for every thread count
if out is not None:
    try:
        for nt_ in (1, 2, 3, 4, 5, 6):
            o2 = run(nt_)
            for t in tracers:
                for k in out[t]:
                    a_, b_ = np.asarray(out[t][k]), np.asarray(o2[t][k])
                    if a_.shape != b_.shape or not np.array_equal(a_, b_, equal_nan=True):
                        bad.append(f'{{t}}.{{k}} differs between Nthread={{case["Nthread"]}} ({{a_.tolist()}}) and Nthread={{nt_}} ({{b_.tolist()}})'); break
            if bad: break
    except Exception as ex:
        bad.append(f'gen_gals raised {{type(ex).__name__}}: {{ex}} for another thread count')
# Concrete family (the stand-ins cannot follow every solver model: 10**x is a real pow here and an uninterpreted one there): the REAL
# compiled gen_gals with the real occupation functions on a table with quantised masses (equal neighbours), random environment and
# non-zero assembly bias must give the same catalogue for every thread count.
if not bad:
    try:
        rng = np.random.default_rng(7)
        for H2, P2 in ((7, 60), (50, 1500)):
            hq = dict(hpos=rng.random((H2, 3)) * 100 - 50, hvel=rng.normal(size=(H2, 3)) * 300, hmass=2e9 * rng.integers(3000, 3004, H2).astype(float),
                      hid=np.arange(H2, dtype=np.int64) * 7 + 3, hmultis=np.ones(H2), hrandoms=rng.random(H2) * 0.3, hveldev=rng.normal(size=(H2, 3)) * 100,
                      hdeltac=rng.random(H2) - 0.5, hfenv=rng.random(H2) - 0.5, hshear=rng.random(H2) - 0.5)
            pq = dict(ppos=rng.random((P2, 3)) * 100 - 50, pvel=rng.normal(size=(P2, 3)) * 300, phvel=rng.normal(size=(P2, 3)) * 300,
                      phmass=2e9 * rng.integers(30000, 30003, P2).astype(float), phid=np.arange(P2, dtype=np.int64), pweights=rng.random(P2) * 0.5,
                      prandoms=rng.random(P2), pdeltac=rng.random(P2) - 0.5, pfenv=rng.random(P2) - 0.5, pshear=rng.random(P2) - 0.5,
                      pranks=rng.random(P2) - 0.5, pranksv=rng.random(P2) - 0.5, pranksp=rng.random(P2) - 0.5, pranksr=rng.random(P2) - 0.5,
                      pranksc=rng.random(P2) - 0.5, pinds=rng.integers(0, H2, P2))
            trq = {{'LRG': dict(logM_cut=12.6, logM1=13.6, sigma=0.5, alpha=1.0, kappa=0.5, alpha_c=0.2, alpha_s=0.9, s=0.1, s_v=0.0, s_p=0.0, s_r=0.0,
                               Acent=0.3, Asat=0.6, Bcent=-0.2, Bsat=-0.5, ic=0.9),
                   'ELG': dict(p_max=0.4, Q=100.0, logM_cut=12.2, kappa=1.0, sigma=0.6, logM1=13.5, alpha=0.9, gamma=4.0, A_s=1.0, alpha_c=0.1, alpha_s=1.0,
                               s=0.0, s_v=0.1, s_p=0.0, s_r=0.0, Acent=0.2, Asat=0.4, Bcent=0.05, Bsat=0.3, Ccent=0.1, Csat=0.2, ic=1.0),
                   'QSO': dict(logM_cut=12.5, kappa=1.0, sigma=0.4, logM1=14.0, alpha=1.0, alpha_c=0.0, alpha_s=1.0, s=0.0, s_v=0.0, s_p=0.0, s_r=0.1,
                               Acent=0.1, Asat=0.3, Bcent=0.2, Bsat=-0.2, ic=0.5)}}
            trq = {{t: trq[t] for t in tracers}}
            parq = dict(z=0.5, velz2kms=900.0, Lbox=100.0, Mpart=2e9, origin=None)
            ref = None
            for nt_ in (1, 2, 3, 5, 8):
                o = gh.gen_gals({{k: v.copy() for k, v in hq.items()}}, {{k: v.copy() for k, v in pq.items()}}, {{t: dict(d) for t, d in trq.items()}}, parq, nt_, False, False, False, False)
                snap = {{t: {{k: np.asarray(v).copy() for k, v in o[t].items()}} for t in o}}
                if ref is None: ref = snap; continue
                for t in snap:
                    for k in snap[t]:
                        if snap[t][k].shape != ref[t][k].shape or not np.array_equal(snap[t][k], ref[t][k], equal_nan=True):
                            bad.append(f'real compiled gen_gals, {{H2}} hosts / {{P2}} particles with quantised masses: {{t}}.{{k}} differs between Nthread=1 and Nthread={{nt_}} (rows {{ref[t][k].shape}} vs {{snap[t][k].shape}})'); break
                    if bad: break
                if bad: break
            if bad: break
    except Exception as ex:
        print('concrete family skipped:', type(ex).__name__, ex)
# frame condition: the caller's dictionaries come back unchanged
try:
    tr_in = {{t: dict(d) for t, d in tr_call.items()}}; par_in = dict(params)
    G['gen_gals']({{k: v.copy() for k, v in hd.items()}}, {{k: v.copy() for k, v in pd.items()}}, tr_in, par_in, case['Nthread'], ranks, rsd, False, False)
    for t in tr_call:
        if tr_in[t] != tr_call[t]:
            bad.append(f'gen_gals changed the {{t}} dictionary of its caller: added/changed keys {{sorted(k for k in tr_in[t] if k not in tr_call[t] or tr_in[t][k] != tr_call[t][k])}}')
    if set(par_in) != set(params): bad.append(f'gen_gals changed the params dictionary of its caller: {{sorted(set(par_in) ^ set(params))}}')
except Exception as ex:
    pass
ORDER = ['LRG', 'ELG', 'QSO']
def widths_c(i):
    g = lambda k: hd[k][i]
    w = []
    for t in ORDER:
        if t not in tracers: continue
        d = tr[t]
        if t == 'LRG': f = G['n_cen_LRG'](g('hmass'), d['logM_cut'] + d['Acent'] * g('hdeltac') + d['Bcent'] * g('hfenv'), d['sigma'])
        elif t == 'ELG': f = G['N_cen_ELG_v1'](g('hmass'), d['p_max'], d['Q'], d['logM_cut'] + d['Acent'] * g('hdeltac') + d['Bcent'] * g('hfenv') + d['Ccent'] * g('hshear'), d['sigma'], d['gamma'])
        else: f = G['N_cen_QSO'](g('hmass'), d['logM_cut'] + d['Acent'] * g('hdeltac') + d['Bcent'] * g('hfenv'), d['sigma'])
        w.append((t, f * d['ic'] * g('hmultis')))
    return w
def widths_s(p, kc):
    g = lambda k: pd[k][p]
    w = []
    for t in ORDER:
        if t not in tracers: continue
        d = tr[t]
        lc = d['logM_cut'] + d['Acent'] * g('pdeltac') + d['Bcent'] * g('pfenv') + (d['Ccent'] * g('pshear') if t == 'ELG' else 0)
        if t == 'LRG':
            base = G['n_sat_LRG_modified'](g('phmass'), lc, 10 ** lc, 10 ** (d['logM1'] + d['Asat'] * g('pdeltac') + d['Bsat'] * g('pfenv')), d['sigma'], d['alpha'], d['kappa'])
        elif t == 'ELG':
            if kc == 1: M1, al = 10 ** (d['logM1_EL'] + d['Asat'] * g('pdeltac') + d['Bsat'] * g('pfenv')), d['alpha_EL']
            elif kc == 2: M1, al = 10 ** (d['logM1_EE'] + d['Asat'] * g('pdeltac') + d['Bsat'] * g('pfenv')), d['alpha_EE']
            else: M1, al = 10 ** (d['logM1'] + d['Asat'] * g('pdeltac') + d['Bsat'] * g('pfenv') + d['Csat'] * g('pshear')), d['alpha']
            base = G['N_sat_elg'](g('phmass'), 10 ** lc, d['kappa'], M1, al, d['A_s'])
        else:
            base = G['N_sat_generic'](g('phmass'), 10 ** lc, d['kappa'], 10 ** (d['logM1'] + d['Asat'] * g('pdeltac') + d['Bsat'] * g('pfenv')), d['alpha'])
        base = base * g('pweights') * d['ic']
        if ranks: base = base * (1 + d['s'] * g('pranks') + d['s_v'] * g('pranksv') + d['s_p'] * g('pranksp') + d['s_r'] * g('pranksr'))
        w.append((t, base))
    return w
def pick(r, w):
    lo = 0.0
    for t, x in w:
        if lo < r < lo + x: return t
        lo += x
    return None
def wrapz(z, L):
    while z >= L / 2: z -= L
    while z < -L / 2: z += L
    return z
if out is not None:
    exp = {{t: [] for t in tracers}}; ncen = {{t: 0 for t in tracers}}; keepc = []
    inv, L, org = 1 / params['velz2kms'], params['Lbox'], params['origin']
    def place(pos, vel):
        pos = np.array(pos, dtype=float)
        if rsd and org is None: pos[2] = wrapz(pos[2] + vel[2] * inv, L)
        elif rsd:
            n = pos - org; n = n / np.sqrt((n * n).sum()); pos = pos + inv * (vel * n).sum() * n
        return pos
    for i in range(H):
        t = pick(hd['hrandoms'][i], widths_c(i)); keepc.append(0 if t is None else ORDER.index(t) + 1)
        if t:
            vel = hd['hvel'][i] + tr[t]['alpha_c'] * hd['hveldev'][i]
            exp[t].append(list(place(hd['hpos'][i], vel)) + list(vel) + [hd['hmass'][i], hd['hid'][i]]); ncen[t] += 1
    for p in range(P):
        t = pick(pd['prandoms'][p], widths_s(p, keepc[pd['pinds'][p]] if H else 0))
        if t:
            vel = pd['phvel'][p] + tr[t]['alpha_s'] * (pd['pvel'][p] - pd['phvel'][p])
            exp[t].append(list(place(pd['ppos'][p], vel)) + list(vel) + [pd['phmass'][p], pd['phid'][p]])
    for t in tracers:
        d = out[t]
        got = np.column_stack([np.asarray(d[k], dtype=float) for k in ('x', 'y', 'z', 'vx', 'vy', 'vz', 'mass', 'id')]) if len(d['x']) else np.zeros((0, 8))
        e_ = np.array(exp[t], dtype=float).reshape(-1, 8)
        if int(d['Ncent']) != ncen[t] or got.shape != e_.shape:
            bad.append(f'{{t}}: {{len(d["x"])}} galaxies, Ncent={{d["Ncent"]}}; the rule gives {{len(e_)}} with {{ncen[t]}} centrals')
        elif not np.allclose(got, e_, rtol=1e-7, atol=1e-7 * (1 + np.abs(e_).max() if e_.size else 1)):
            bad.append(f'{{t}}: rows differ from the rule: got {{got.tolist()}} expected {{e_.tolist()}}')
    # thread-count independence (C10)
    for nt in (1, 2, 3, 5):
        o2 = run(nt)
        for t in tracers:
            for k in ('x', 'y', 'z', 'vx', 'vy', 'vz', 'mass', 'id'):
                if not np.array_equal(np.asarray(o2[t][k]), np.asarray(out[t][k])) or o2[t]['Ncent'] != out[t]['Ncent']:
                    bad.append(f'{{t}}.{{k}} differs between Nthread={{case["Nthread"]}} and Nthread={{nt}}'); break
print('case', case)
for b in bad[:8]: print('  ', b)
sys.exit(1 if bad else 0)
'''
    return common.write_replay(path, body_)
