"""C07 -- parallel TSC equals serial TSC under every thread schedule.

Three pieces, all obtained by executing the real code symbolically:
 (1) tsc_parallel's choice / validation of npartition with a symbolic thread count and a
     symbolic user-supplied npartition (painters stubbed by recorders): the set of accepted
     (n1d, npartition) with nthread > 1;
 (2) _tsc_parallel's schedule: which stripes share a prange (recorder in place of
     _tsc_scatter), every stripe visited exactly once, weights sliced like positions;
 (3) a row summary of the real _tsc_scatter for one particle on an n1d-row grid: for every
     path its path condition over (x, offset) and the set of rows it writes.
The deciding query composes them: do two particles in two different stripes of one prange
(stripe membership as proved in C17), sharing the offset, write a common row?  sat = two
threads can update the same cell concurrently (lost update), with the witness replayed."""
import sys
import types
import numpy as real_np
import z3
from checks import common
from checks.common import Sym, SArr, ctx, core, arrays, rebind, harness
import abacusnbody.analysis.tsc as tsc

ID = 'C07'
BOUNDS = {
    'quick': 'grid size n1d along the partition axis: every value 1..24; nthread symbolic in [1,4096]; npartition None (default) '
             'or symbolic user value in [1, n1d]; coord in {0,1,2}; particle coordinate and offset free reals (box=1, '
             'offset in [0, one cell]); stripes pairs: all pairs of one prange; _tsc_parallel schedule for npartition 1..8'
             '; also: wiring items N in {2,3}, npartition in {2,3}, nthread in {1,2}; thread count in force taken from the global numba state',
    'thorough': 'as quick with n1d 1..64 by the engine-derived row summary and n1d up to 1024 (powers of two, 3*2^k, neighbours) by '
                'the closed-form row formula, which is cross-checked against the engine-derived summary for every n1d <= 24',
}
OUTSIDE = 'float32 evaluation of stripe keys and cells (real model; the margin between concurrently painted stripes of accepted ' \
          'widths is a whole cell); numba\'s scheduler itself; box != 1 (scale-free arithmetic); sort=True only permutes within ' \
          'stripes (C17) and is not re-examined here'
STUBS = ['partition_parallel / _tsc_parallel / _wrap_inplace inside tsc_parallel: recorders (configuration step only)',
         '_tsc_scatter inside _tsc_parallel: recorder of the slices it is handed (schedule step only)',
         'stripe membership of a particle: floor(x*npartition/box) = s, last stripe closed above (the C17 postcondition)']
ASSUMPTIONS = ['floats are reals', 'particle coordinates in [0, box]', '0 <= offset <= one cell',
               'two iterations of one prange may run concurrently; iterations of different pranges never do']
MUST_COVER = {'abacusnbody.analysis.tsc._tsc_parallel': 0, 'abacusnbody.analysis.tsc.tsc_parallel': 14}

FUNCS = [tsc.tsc_parallel, tsc._tsc_parallel, tsc._tsc_scatter, tsc._rightwrap, tsc._zeros_parallel]


def sources():
    return rebind.source_hash(*FUNCS)


class Rejected(Exception):
    pass


# ---- (1) configurations accepted by the real tsc_parallel -----------------------------------

def make_config_ns():
    R = rebind.Rebound(tsc)
    rec = {}

    real_partition = R.partition_parallel

    def fake_partition(pos, npartition, boxsize, **kw):
        rec['partition'] = dict(npartition=npartition, **kw)
        # the real partition_parallel runs up to its first allocation of symbolic size: whatever it does to the
        # global numba thread count (it calls numba.set_num_threads itself) is in force when the painter runs
        c = ctx()
        c.extra['stop_at_alloc'] = True
        try:
            real_partition(pos, npartition, boxsize, **kw)
        except core.StopAtAlloc:
            pass
        finally:
            c.extra['stop_at_alloc'] = False
        return pos, None, kw.get('weights')

    def fake_tsc(ppart, starts, dens, box, weights, offset):
        # the number of numba threads in force when the stripes are painted
        rec['tsc'] = dict(starts=starts, threads=R.numba.get_num_threads())

    def fake_wrap(pos, box):
        rec['wrap'] = True
    R.set_global('partition_parallel', fake_partition)
    R.set_global('_tsc_parallel', fake_tsc)
    R.set_global('_wrap_inplace', fake_wrap)
    return R, rec


class SymThreads(rebind.NumbaShim):
    """numba shim whose set_num_threads keeps a symbolic thread count symbolic."""

    def set_num_threads(self, n):
        if isinstance(n, Sym):
            c = ctx()
            if c.feasible(z3.Or(n.e < 1, n.e > self.config.NUMBA_NUM_THREADS)):
                if not c.feasible(z3.And(n.e >= 1, n.e <= self.config.NUMBA_NUM_THREADS)):
                    raise ValueError('The number of threads must be between 1 and %d' % self.config.NUMBA_NUM_THREADS)
                c.assume(z3.And(n.e >= 1, n.e <= self.config.NUMBA_NUM_THREADS))
            self._nthreads = n
            return
        return super().set_num_threads(n)


def body_config(n1d, coord, user):
    """Run the real tsc_parallel; returns (accepted npartition values with nthread>1 feasible,
    accepted with nthread==1)."""
    c = ctx()
    c.extra['case'] = dict(kind='config', n1d=n1d, coord=coord, user=user)
    c.extra['keyprefix'] = 'config:'
    R, rec = make_config_ns()
    nb = SymThreads(4096)
    R.set_global('numba', nb)
    nthread = Sym(c.input('nthread', z3.IntSort()))
    c.assume(z3.And(nthread.e >= 1, nthread.e <= 4096))
    # anisotropic on purpose: the other two axes are longer than the partition axis, so a configuration
    # derived from the wrong axis length would be accepted here although its stripes are too narrow
    shape = [2 * n1d + 6, 2 * n1d + 9, 2 * n1d + 12]
    shape[coord] = n1d
    if shape[0] * shape[1] * shape[2] <= 200000:
        dens = SArr(tuple(shape), 'f4', fill=None, name='dens')
    else:
        # the configuration step only looks at the grid's shape / dtype (painters are recorders): no cells for the big sweeps
        dens = types.SimpleNamespace(shape=tuple(shape), ndim=3, dtype=arrays.T('f4'), itemsize=4)
    pos = SArr((0, 3), 'f4', name='pos')
    npart = None
    if user:
        npart = Sym(c.input('npartition', z3.IntSort()))
        c.assume(z3.And(npart.e >= 1, npart.e <= 2 * n1d + 13))
    try:
        R.tsc_parallel(pos, dens, 1.0, nthread=nthread, npartition=npart, coord=coord, wrap=True)
    except ValueError:
        c.extra['result'] = dict(rejected=True)
        return
    if 'partition' in rec:
        npv = rec['partition']['npartition']
    else:
        npv = 1     # serial path: a single stripe
    e = core.lift(npv).as_int()
    out = []
    # concurrency is decided by the thread count in force when _tsc_parallel runs (numba's global setting),
    # which need not be the caller's nthread argument
    eff = core.lift(rec['tsc']['threads']).as_int() if 'tsc' in rec else nthread.e
    c.add(eff > 1)      # only configurations that can run concurrently matter (with one thread every npartition is accepted, and harmless)
    vals = c.values(e, cap=700, what='accepted npartition')
    for v in vals:
        r, m = c._check([e == v, eff > 1], core.FORK_TIMEOUT_MS)
        if r == 'sat':
            out.append((v, True, m.eval(nthread.e, model_completion=True).as_long()))
        elif r == 'unknown':
            raise core.Inconclusive('config feasibility')
        else:
            out.append((v, False, 1))
    c.extra['result'] = dict(accepted=out, via_partition='partition' in rec)
    c.extra['sample'] = dict(c.extra['case'], accepted=[(a, b) for a, b, _ in out][:8])


# ---- (2) schedule of the real _tsc_parallel --------------------------------------------------

def body_schedule(npart, with_w):
    c = ctx()
    c.extra['case'] = dict(kind='schedule', npartition=npart, weights=with_w)
    c.extra['keyprefix'] = 'schedule:'
    c.extra['sample'] = c.extra['case']
    R = rebind.Rebound(tsc)
    calls = []

    def rec_scatter(positions, density, boxsize, weights=None, offset=0.0):
        info, cl = arrays.cells_of(positions)
        winfo = arrays.cells_of(weights)[1].tolist() if weights is not None else None
        calls.append(dict(tag=c.tag, rows=sorted(set(int(x) // 3 for x in cl.tolist())), w=winfo))
    R.set_global('_tsc_scatter', rec_scatter)
    rebind.NB.reset(8)
    N = 2 * npart     # two particles per stripe
    ppart = common.sym_array('ppart', (N, 3), 'f4')
    w = common.sym_array('w', (N,), 'f4') if with_w else None
    starts = arrays.as_sarr(real_np.arange(0, N + 1, 2, dtype=real_np.int64))
    dens = SArr((3, 3, 3), 'f4', fill=0.0)
    R._tsc_parallel(ppart, starts, dens, 1.0, w, 0.0)
    seen = {}
    ok = True
    for cl in calls:
        if not cl['rows']:
            continue
        s = cl['rows'][0] // 2
        ok = ok and cl['rows'] == [2 * s, 2 * s + 1] and (cl['w'] is None) == (not with_w) and (cl['w'] is None or cl['w'] == cl['rows'])
        seen.setdefault(s, []).append(cl['tag'][0] if cl['tag'] else None)
    once = sorted(seen) == list(range(npart)) and all(len(v) == 1 for v in seen.values())
    c.prove(z3.BoolVal(ok and once), 'every stripe is painted exactly once, with its own particles and weights', key='schedule:once')
    passes = {}
    for s, v in seen.items():
        passes.setdefault(v[0], []).append(s)
    groups = sorted(sorted(v) for v in passes.values())
    parity = groups == sorted(g for g in ([s for s in range(npart) if s % 2 == 0], [s for s in range(npart) if s % 2 == 1]) if g)
    c.prove(z3.BoolVal(parity), 'stripes sharing a prange are exactly the even ones, then exactly the odd ones', key='schedule:parity')
    c.extra['result'] = dict(groups=groups)


# ---- (2b) end-to-end wiring: the painter is handed every particle exactly once with its own weight ----

def body_wiring(N, n1d, npart, nthread, coord, with_w, sort):
    """The real tsc_parallel -> real partition_parallel (with its optional in-stripe sort) -> real _tsc_parallel,
    with a recorder in place of _tsc_scatter: the union of the slices handed to the painter must be the caller's
    particles, each exactly once and each with its own weight, painted into the caller's grid."""
    c = ctx()
    case = dict(kind='wiring', N=N, n1d=n1d, npartition=npart, nthread=nthread, coord=coord, weights=with_w, sort=sort)
    c.extra['case'] = case
    c.extra['keyprefix'] = 'wiring:'
    c.extra['sample'] = case
    c.extra['name_products'] = True
    R = rebind.Rebound(tsc)
    calls = []

    def rec_scatter(positions, density, boxsize, weights=None, offset=0.0):
        P = real_np.ndarray.view(positions, real_np.ndarray)
        W = real_np.ndarray.view(weights, real_np.ndarray) if weights is not None else None
        calls.append(dict(rows=[[P[r, j] for j in range(3)] for r in range(P.shape[0])], w=None if W is None else [W[r] for r in range(W.shape[0])],
                          grid=density, box=boxsize, offset=offset))
    R.set_global('_tsc_scatter', rec_scatter)
    rebind.NB.reset(8)
    box = Sym(c.input('box', z3.RealSort()))
    c.assume(box.e > 0)
    pos = common.sym_array('pos', (N, 3), 'f4')
    for v in common.cells(pos):
        c.assume(z3.And(v.e >= 0, v.e < box.e))
    w = common.sym_array('w', (N,), 'f4') if with_w else None
    pos_cells = [[common.cell(pos, i, j) for j in range(3)] for i in range(N)]
    w_cells = [common.cell(w, i) for i in range(N)] if with_w else None
    shape = [n1d + 1, n1d + 2, n1d + 3]
    shape[coord] = n1d
    dens = SArr(tuple(shape), 'f4', fill=0.0, name='dens')
    off = Sym(c.input('o', z3.RealSort()))
    out = R.tsc_parallel(pos, dens, box, weights=w, nthread=nthread, wrap=False, npartition=npart, sort=sort, coord=coord, offset=off)
    env = out is dens and all(cl['grid'] is dens and cl['box'] is box and cl['offset'] is off for cl in calls)
    c.prove(z3.BoolVal(bool(env)), 'every stripe is painted into the caller\'s grid with the caller\'s box and offset, and that grid is returned', key='wiring:grid')
    rows = [r for cl in calls for r in cl['rows']]
    ws = [x for cl in calls for x in (cl['w'] if cl['w'] is not None else [None] * len(cl['rows']))]
    src = []
    for r in rows:
        m = [i for i in range(N) if all(r[j] is pos_cells[i][j] for j in range(3))]
        src.append(m[0] if len(m) == 1 else None)
    perm = len(rows) == N and all(x is not None for x in src) and sorted(src) == list(range(N))
    c.prove(z3.BoolVal(perm), 'the particles handed to the painter over all stripes are the caller\'s particles, each exactly once', key='wiring:particles')
    if not perm:
        return
    if not with_w:
        c.prove(z3.BoolVal(all(x is None for x in ws)), 'no weights are invented for an unweighted call', key='wiring:weights')
        return
    if any(x is None or x is arrays.UNINIT for x in ws):
        c.report('violation', 'a stripe is painted without (or with unwritten) weights although the caller gave weights', key='wiring:weights')
        return
    xs = [core.lift(pos_cells[i][coord]).as_real() for i in range(N)]
    conds = []
    for k in range(N):
        a, b = core.lift(ws[k]), core.lift(w_cells[src[k]])
        if not a.e.eq(b.e):
            conds.append(core._b(a == b))
    c.prove(z3.Implies(z3.Distinct(*xs) if N > 1 else z3.BoolVal(True), z3.And(conds) if conds else z3.BoolVal(True)),
            'each particle is painted with its own weight', key='wiring:weights')
    c.prove(z3.BoolVal(all(ws[k] is w_cells[src[k]] for k in range(N))), 'each particle is painted with its own weight', key='wiring:weights')
    unt = [core._b(core.lift(common.cell(w, i)) == core.lift(w_cells[i])) for i in range(N) if common.cell(w, i) is not w_cells[i]]
    unt += [core._b(core.lift(common.cell(pos, i, j)) == core.lift(pos_cells[i][j])) for i in range(N) for j in range(3) if common.cell(pos, i, j) is not pos_cells[i][j]]
    c.prove(z3.Implies(z3.Distinct(*xs) if N > 1 else z3.BoolVal(True), z3.And(unt) if unt else z3.BoolVal(True)),
            'the caller\'s positions (wrap=False) and weights are not modified', key='wiring:input')


# ---- (3) row summary of the real _tsc_scatter ------------------------------------------------

def body_rows(n1d, coord):
    """One particle, partition coordinate x in [0,1] free, offset in [0, 1/n1d] free (box=1);
    the other two coordinates fixed at a cell centre.  Returns per path: (path condition, rows)."""
    c = ctx()
    c.extra['case'] = dict(kind='rows', n1d=n1d, coord=coord)
    c.extra['keyprefix'] = 'rows:'
    R = rebind.Rebound(tsc)
    shape = [3, 3, 3]
    shape[coord] = n1d
    x = Sym(c.input('x', z3.RealSort()))
    o = Sym(c.input('o', z3.RealSort()))
    c.assume(z3.And(x.e >= 0, x.e <= 1, o.e >= 0, o.e * n1d <= 1))
    pos = SArr((1, 3), 'f4', fill=None, name='pos')
    for j in range(3):
        pos[0, j] = x if j == coord else 0.25
    dens = SArr(tuple(shape), 'f4', fill=0.0, name='dens')
    R._tsc_scatter(pos, dens, 1.0, weights=None, offset=o)
    wc = common.wcounts(dens)
    rows = sorted(set(int(idx[coord]) for idx in zip(*real_np.nonzero(wc))))
    c.extra['result'] = dict(pc=list(c.cons), rows=rows)
    c.extra['sample'] = dict(c.extra['case'], rows=rows)
    # obligation local to this step: the particle's three rows are k-1, k, k+1 (mod n1d) of its nearest row k
    k = c.extra['rounds'][coord][1]
    kk = c.concretize(core.lift(k).as_int(), what='nearest row')
    c.prove(z3.BoolVal(set(rows) == {(kk - 1) % n1d, kk % n1d, (kk + 1) % n1d}),
            'a particle writes the rows k-1, k, k+1 (mod n1d) of its nearest row k', key='rows:three')


def rows_summary(n1d, coord):
    res = core.explore(lambda: body_rows(n1d, coord), max_paths=5000)
    out, stats = [], harness.collect(res)
    for r in res:
        if r.exc is None and r.extra.get('result'):
            out.append((r.extra['result']['pc'], r.extra['result']['rows']))
    return out, stats


def rename(pc, suffix):
    """Instantiate a path condition for a second particle: every variable except the shared
    offset 'o' gets a suffix."""
    vars_ = {}

    def collect(e):
        if z3.is_const(e) and e.decl().kind() == z3.Z3_OP_UNINTERPRETED:
            vars_[e.decl().name()] = e
        for ch in e.children():
            collect(ch)
    for a in pc:
        collect(a)
    sub = [(v, z3.Const(n + suffix, v.sort())) for n, v in vars_.items() if n != 'o']
    return [z3.substitute(a, *sub) for a in pc], [b for a, b in sub if a.decl().name() != 'x']


def rows_formula(summary, suffix, r, want_vars=False):
    """rows(x, o, r) as the disjunction over the explored paths of (path condition and r in
    the rows written on that path).  The code's internal round() results are existential
    variables of the formula (returned with want_vars for the quantified cross-check)."""
    alts, ex = [], {}
    for pc, rows in summary:
        cons, vs = rename(pc, suffix)
        for v in vs:
            ex[v.decl().name()] = v
        alts.append(z3.And(cons + [z3.Or([r == v for v in rows])]))
    f = z3.Or(alts)
    return (f, list(ex.values())) if want_vars else f


def closed_rows(n1d, x, o, r, k):
    """Closed-form row relation used beyond the engine's reach (cross-checked against the
    engine-derived summary for n1d <= 24): k = round-half-even((x+o)*n1d), r in {k-1,k,k+1} mod n1d."""
    p = (x + o) * n1d
    kr = z3.ToReal(k)
    half = z3.RealVal('1/2')
    rnd = z3.And(kr - p <= half, p - kr <= half, z3.Implies(z3.Or(kr - p == half, p - kr == half), k % 2 == 0))
    return z3.And(rnd, z3.Or([r == (k + d) % n1d for d in (-1, 0, 1)]))


def stripe_pred(x, s, npart):
    """floor(x*npartition/box) = s, last stripe closed above (box = 1)."""
    u = x * npart
    return z3.And(u >= z3.ToReal(s), z3.Or(u < z3.ToReal(s) + 1, s == npart - 1))


def conflict_query(n1d, npart, rows1, rows2, x1, x2, o, s1, s2, r, timeout=60000):
    s = z3.Solver()
    s.add(x1 >= 0, x1 <= 1, x2 >= 0, x2 <= 1, o >= 0, o * n1d <= 1)
    s.add(s1 >= 0, s1 < s2, s2 < npart, (s2 - s1) % 2 == 0)
    s.add(stripe_pred(x1, s1, npart), stripe_pred(x2, s2, npart))
    s.add(rows1, rows2)
    res = core.timed_check(s, timeout)
    return str(res), (s.model() if res == z3.sat else None)


def body_conflicts(n1d, coord, accepted, use_closed=False, summary=None):
    """accepted: list of (npartition, nthread witness).  One deciding query per configuration."""
    c = ctx()
    c.extra['case'] = dict(kind='conflict', n1d=n1d, coord=coord, closed=use_closed)
    c.extra['sample'] = dict(c.extra['case'], accepted=[a for a, _ in accepted])
    x1, x2, o = z3.Real('x!1'), z3.Real('x!2'), z3.Real('o')
    s1, s2, r = z3.Int('s1'), z3.Int('s2'), z3.Int('r')
    if use_closed:
        rows1 = closed_rows(n1d, x1, o, r, z3.Int('k!1'))
        rows2 = closed_rows(n1d, x2, o, r, z3.Int('k!2'))
    else:
        rows1 = rows_formula(summary, '!1', r)
        rows2 = rows_formula(summary, '!2', r)
    for npart, nth in accepted:
        if npart < 2:
            c.stats.proved += 1
            continue
        res, m = conflict_query(n1d, npart, rows1, rows2, x1, x2, o, s1, s2, r)
        c.stats.queries += 1
        if res == 'unsat':
            c.stats.proved += 1
        elif res == 'sat':
            g = lambda v: core._pyval(m.eval(v, model_completion=True))
            model = dict(x1=g(x1), x2=g(x2), o=g(o), s1=g(s1), s2=g(s2), row=g(r), nthread=nth)
            cls = 'npartition=n1d//2' if npart == n1d // 2 and npart > n1d // 3 else 'npartition<=n1d//3' if npart <= n1d // 3 else 'other'
            c.events.append(dict(kind='race', what=f'n1d={n1d}, npartition={npart} is accepted (nthread={nth}) but stripes {g(s1)} and {g(s2)}, '
                                 f'painted concurrently, both write row {g(r)}', key=f'race:{cls}', model=model,
                                 info=dict(case=dict(kind='conflict', n1d=n1d, npartition=npart, coord=coord, nthread=nth))))
        else:
            c.events.append(dict(kind='inconclusive', what=f'conflict query n1d={n1d} npartition={npart}', key='race:unknown', info={}))


def body_crosscheck(n1d, summary):
    """closed-form row relation == engine-derived summary, for all x, o (both directions)."""
    c = ctx()
    c.extra['case'] = dict(kind='crosscheck', n1d=n1d)
    c.extra['sample'] = c.extra['case']
    x, o, r, k = z3.Real('x!1'), z3.Real('o'), z3.Int('r'), z3.Int('k!c')
    dom = z3.And(x >= 0, x <= 1, o >= 0, o * n1d <= 1)
    eng, exv = rows_formula(summary, '!1', r, want_vars=True)
    clo = closed_rows(n1d, x, o, r, k)
    c.add(dom)
    # engine => exists k. closed  (checked as: engine and forall-k-not-closed is unsat, via the k the engine itself uses)
    s = z3.Solver()
    s.add(dom, eng, z3.ForAll([k], z3.Not(clo)))
    r1 = str(core.timed_check(s, 60000))
    s = z3.Solver()
    s.add(dom, clo, z3.ForAll(exv, z3.Not(eng)))
    r2 = str(core.timed_check(s, 60000))
    c.stats.queries += 2
    for res, what in ((r1, 'engine-derived rows are contained in the closed form'), (r2, 'closed-form rows are contained in the engine-derived summary')):
        if res == 'unsat':
            c.stats.proved += 1
        else:
            c.events.append(dict(kind='inconclusive' if res == 'unknown' else 'violation', what=f'cross-check n1d={n1d}: {what} ({res})',
                                 key='crosscheck', model={}, info=dict(case=c.extra['case'])))


# ---- items ---------------------------------------------------------------------------------

def items(tier, seed):
    out = []
    nmax = 24 if tier == 'quick' else 64
    for n1d in range(1, nmax + 1):
        coords = (0, 1, 2) if (n1d <= 12 or tier == 'thorough' and n1d <= 24) else (n1d % 3,)
        for coord in coords:
            out.append(dict(name=f'n1d={n1d:03d}/coord={coord}', kind='grid', n1d=n1d, coord=coord))
    for npart in range(1, 9):
        out.append(dict(name=f'schedule/npartition={npart}', kind='schedule', npart=npart))
    # wiring: (N, n1d, npartition, nthread) -- nthread=1 accepts any explicit npartition; nthread=2 needs npartition <= n1d//3, even
    wl = [(2, 4, 2, 1), (3, 4, 3, 1), (2, 6, 2, 2), (3, 7, 2, 2)]
    if tier == 'thorough':
        wl += [(4, 4, 2, 1), (3, 12, 4, 2), (4, 12, 4, 3), (3, 5, 5, 1)]
    for N, n1d, npart, nth in wl:
        out.append(dict(name=f'wiring/N={N}/n1d={n1d}/npartition={npart}/nthread={nth}', kind='wiring', N=N, n1d=n1d, npart=npart, nthread=nth))
    if tier == 'thorough':
        big = sorted({v for k in range(5, 11) for b in (2 ** k, 3 * 2 ** (k - 1)) for v in (b - 1, b, b + 1, b + 2, b + 3) if 64 < v <= 1024})
        for n1d in big:
            out.append(dict(name=f'closed/n1d={n1d:04d}', kind='closed', n1d=n1d))
    return out


def run(item):
    tot = dict(paths=0, queries=0, solver_s=0.0, proved=0, reached=0, events=[], samples=[], assumptions=[], cov={})

    def add(r):
        for k in ('paths', 'queries', 'solver_s', 'proved', 'reached'):
            tot[k] += r[k]
        tot['events'] += r['events']
        tot['samples'] = (tot['samples'] + r['samples'])[:3]
        tot['assumptions'] = sorted(set(tot['assumptions']) | set(r['assumptions']))
        if r.get('cov'):
            harness.merge_cov(tot['cov'], r['cov'])
    if item['kind'] == 'wiring':
        for coord in (0, 1, 2):
            for ww in (False, True):
                for srt in (False, True):
                    if coord != item['N'] % 3 and not (ww and srt):
                        continue
                    r, res = common.run_paths(lambda: body_wiring(item['N'], item['n1d'], item['npart'], item['nthread'], coord, ww, srt), cov_funcs=FUNCS)
                    add(r)
        return tot
    if item['kind'] == 'schedule':
        for ww in (False, True):
            r, res = common.run_paths(lambda: body_schedule(item['npart'], ww), cov_funcs=FUNCS)
            add(r)
        return tot
    n1d = item['n1d']
    accepted = {}
    if item['kind'] == 'grid':
        coord = item['coord']
        for user in (False, True):
            r, res = common.run_paths(lambda: body_config(n1d, coord, user), cov_funcs=FUNCS)
            r['proved'] += sum(1 for p in res if p.extra.get('result'))      # each path yields a decided accept/reject set
            add(r)
            for p in res:
                for v, par, nth in (p.extra.get('result') or {}).get('accepted', []):
                    if par:
                        accepted.setdefault(v, nth)
        acc = sorted(accepted.items())
        if not any(a >= 2 for a, _ in acc):
            return tot          # only single-stripe (serial) configurations are accepted: nothing runs concurrently
        if n1d < 3:
            # a partition axis shorter than the 3-cell TSC cloud: any accepted multi-stripe configuration is a conflict by
            # construction (every particle touches every row); report it without a row summary of the unsupported tiny grid
            def tiny():
                c = ctx()
                c.extra['case'] = dict(kind='conflict', n1d=n1d, coord=coord)
                c.extra['sample'] = c.extra['case']
                for npart, nth in acc:
                    if npart >= 3:      # two stripes of the same parity exist: 0 and 2
                        import fractions
                        c.events.append(dict(kind='race', what=f'n1d={n1d}, npartition={npart} is accepted (nthread={nth}) on an axis shorter than a TSC cloud',
                                             key='race:other', model=dict(x1=str(fractions.Fraction(1, 2 * npart)), x2=str(fractions.Fraction(5, 2 * npart)), o=0, s1=0, s2=2, row=0, nthread=nth),
                                             info=dict(case=dict(kind='conflict', n1d=n1d, npartition=npart, coord=coord, nthread=nth))))
                    else:
                        c.stats.proved += 1
            r, res = common.run_paths(tiny)
            add(r)
            return tot
        summary, st = rows_summary(n1d, coord)
        st['events'] = [e for e in st['events'] if e['kind'] != 'oob']      # memory safety of the painter is C06/C11's
        add(st)
        r, res = common.run_paths(lambda: body_conflicts(n1d, coord, acc, summary=summary))
        add(r)
        if n1d <= 24 and coord == n1d % 3:
            r, res = common.run_paths(lambda: body_crosscheck(n1d, summary))
            add(r)
    else:
        # closed-form sweep: accepted set from the real tsc_parallel, rows from the cross-checked closed form
        for user in (False, True):
            r, res = common.run_paths(lambda: body_config(n1d, 0, user), cov_funcs=FUNCS)
            r['proved'] += sum(1 for p in res if p.extra.get('result'))
            add(r)
            for p in res:
                for v, par, nth in (p.extra.get('result') or {}).get('accepted', []):
                    if par:
                        accepted.setdefault(v, nth)
        acc = sorted(accepted.items())
        # for large n1d the user-supplied set is every even value <= n1d//3 plus n1d//2: test a spread
        if len(acc) > 12:
            keep = {acc[0][0], acc[1][0], acc[len(acc) // 2][0], acc[-3][0], acc[-2][0], acc[-1][0]}
            acc = [a for a in acc if a[0] in keep]
        r, res = common.run_paths(lambda: body_conflicts(n1d, 0, acc, use_closed=True))
        add(r)
    return tot


def finding_key(e):
    return e['key']


def validate(tier):
    """engine (concrete) vs compiled tsc_parallel: the default npartition choice, observed through
    the partition call, for the grid sizes of the repo's own tests and a few more."""
    n = 0
    import numba
    for n1d in (10, 256, 12, 7):
        for nth in (1, 2, 4):
            # the compiled path: recompute the default exactly as the source does is not possible
            # without re-stating it, so compare behaviour: the compiled tsc_parallel must accept and
            # conserve mass; the engine's recorded choice must be accepted by the real validation.
            pos = real_np.random.default_rng(n1d).random((64, 3)).astype(real_np.float32)
            d = tsc.tsc_parallel(pos, n1d, 1.0, nthread=nth)
            assert abs(float(d.sum()) - 64) < 1e-2

            def body():
                R, rec = make_config_ns()
                R.set_global('numba', SymThreads(4096))
                dens = SArr((n1d, 3, 3), 'f4', fill=0.0)
                R.tsc_parallel(SArr((0, 3), 'f4'), dens, 1.0, nthread=nth)
                return rec.get('partition', {}).get('npartition', 1)
            res = core.explore(body)
            assert len(res) == 1 and res[0].exc is None, res[0].exc
            npv = int(res[0].ret)
            if npv > 1:
                tsc.tsc_parallel(pos, n1d, 1.0, nthread=nth, npartition=npv)   # must not raise
            n += 1
    return n


def replay(e, path):
    i = e['info'].get('case', {})
    if i.get('kind') == 'schedule':
        body_s = f'''
import abacusnbody.analysis.tsc as tsc
npart = {i.get("npartition")!r}
N = 2 * npart
pp = np.random.default_rng(0).random((N, 3)); starts = np.arange(0, N + 1, 2, dtype=np.int64)
w = np.ones(N) if {i.get("weights")!r} else None
bad = []
try:
    tsc._tsc_parallel.py_func(pp, starts, np.zeros((6, 6, 6)), 1.0, w, 0.0)
except IndexError as ex:
    bad.append(f'_tsc_parallel.py_func with npartition={{npart}} (accepted when nthread == 1): IndexError: {{ex}}')
print('npartition', npart)
for b in bad: print('  ', b)
sys.exit(1 if bad else 0)
'''
        return common.write_replay(path, body_s)
    if i.get('kind') == 'wiring':
        m = e.get('model', {})
        body_w = f'''
from fractions import Fraction as F
import warnings; warnings.simplefilter('ignore')
import abacusnbody.analysis.tsc as tsc
import numba
m = {m!r}
case = {i!r}
N, n1d, npart, nth, coord, sort = case['N'], case['n1d'], case['npartition'], case['nthread'], case['coord'], case['sort']
nth = min(nth, numba.config.NUMBA_NUM_THREADS)
box = float(F(m.get('box', 1))); off = float(F(m.get('o', 0)))
pos = np.array([[float(F(m.get(f'pos[{{a}},{{b}}]', 0))) for b in range(3)] for a in range(N)], dtype=np.float64).reshape(N, 3)
w = np.array([float(F(m.get(f'w[{{a}}]', a + 1))) for a in range(N)], dtype=np.float64) if case['weights'] else None
shape = [n1d + 1, n1d + 2, n1d + 3]; shape[coord] = n1d
bad = []
ref = np.zeros(shape)
for k in range(N):      # serial reference: the real kernel, one particle at a time
    tsc._tsc_scatter(pos[k:k + 1].copy(), ref, box, weights=None if w is None else w[k:k + 1].copy(), offset=off)
p0 = pos.copy(); w0 = None if w is None else w.copy()
got = tsc.tsc_parallel(pos, np.zeros(shape), box, weights=w, nthread=nth, wrap=False, npartition=npart, sort=sort, coord=coord, offset=off)
if not np.allclose(got, ref, rtol=1e-9, atol=1e-12):
    bad.append(f'tsc_parallel(npartition={{npart}}, sort={{sort}}, weights={{case["weights"]}}) differs from the serial deposit by {{np.abs(got - ref).max()}}')
if not np.array_equal(pos, p0) or (w is not None and not np.array_equal(w, w0)):
    bad.append("the caller's pos / weights arrays were modified")
print('case', case, 'box', box, 'offset', off, 'pos', pos.tolist(), 'w', None if w is None else w0.tolist())
for b in bad: print('  ', b)
sys.exit(1 if bad else 0)
'''
        return common.write_replay(path, body_w)
    if i.get('kind') == 'crosscheck':
        return None, 'closed-form row relation disagrees with the engine-derived summary of _tsc_scatter (machinery inconsistency)'
    m = e.get('model', {})
    body_ = f'''
from fractions import Fraction as F
import warnings; warnings.simplefilter('ignore')
import abacusnbody.analysis.tsc as tsc
m = {m!r}
case = {i!r}
n1d, npart, coord, nth = case['n1d'], case['npartition'], case['coord'], max(1, int(case.get('nthread', 2)))
x1, x2, o = float(F(m['x1'])), float(F(m['x2'])), float(F(m['o']))
shape = [2 * n1d + 6, 2 * n1d + 9, 2 * n1d + 12]; shape[coord] = n1d      # the anisotropic grid of the configuration step
bad = []
# (a) the configuration is accepted by the real tsc_parallel
import numba
nth = min(nth, numba.config.NUMBA_NUM_THREADS)
pos = np.full((2, 3), 0.25, dtype=np.float64); pos[0, coord] = x1; pos[1, coord] = x2
try:
    tsc.tsc_parallel(pos.copy(), tuple(shape), 1.0, nthread=nth, npartition=npart, coord=coord, offset=o)
    accepted = True
except ValueError as ex:
    accepted = False
    print('rejected:', ex)
eff = numba.get_num_threads()       # threads in force while the stripes were painted
# (b) the two particles are put in two different stripes of the same pass
ps, st, _ = tsc.partition_parallel(pos, npart, 1.0, coord=coord, nthread=nth)
stripe = [int(np.searchsorted(st, k, side='right') - 1) for k in range(2)]
sa = [int(np.searchsorted(st, np.where((ps == pos[k]).all(axis=1))[0][0], side='right') - 1) for k in range(2)]
# (c) deterministic observation: paint each particle alone and compare the rows touched
rows = []
for k in range(2):
    d = np.zeros(shape, dtype=np.float64)
    tsc._tsc_scatter(pos[k:k + 1], d, 1.0, offset=o)
    rows.append(set(np.nonzero(d.sum(axis=tuple(a for a in range(3) if a != coord)))[0].tolist()))
common = rows[0] & rows[1]
print('n1d', n1d, 'npartition', npart, 'coord', coord, 'nthread', nth, 'threads in force', eff, 'x', x1, x2, 'offset', o, 'stripes', sa, 'rows', rows, 'common', common)
if accepted and eff > 1 and sa[0] != sa[1] and (sa[0] - sa[1]) % 2 == 0 and common:
    bad.append(f'accepted configuration lets stripes {{sa}} (same pass) both update row(s) {{sorted(common)}}')
for b in bad: print('  ', b)
sys.exit(1 if bad else 0)
'''
    return common.write_replay(path, body_)


if __name__ == '__main__':
    sys.exit(harness.main(__import__('checks.c07', fromlist=['x'])))
