"""Shared harness for the halo-catalogue properties (C01, C02, C03, C05, C11 zipper):
the real CompaSOHaloCatalog constructor runs end to end on an in-memory catalogue
(asdf.open stubbed, real astropy Tables holding object columns of symbolic cells)."""
import pathlib
import numpy as real_np
import z3
from checks import common
common.fake_modules()
from checks.common import Sym, SArr, ctx, core, arrays, rebind, harness
import abacusnbody.data.compaso_halo_catalog as chc
import abacusnbody.data.bitpacked as bp
import abacusnbody.util as util

RB = rebind.Rebound(bp)
RU = rebind.Rebound(util)


class FakeAF:
    def __init__(self, tree):
        self.tree = tree

    def __getitem__(self, k):
        return self.tree[k]

    def __enter__(self):
        return self

    def __exit__(self, *a):
        return False

    def close(self):
        pass


class FakeAsdfMod:
    def __init__(self):
        self.files = {}
        self.opened = []

    def open(self, fn, **kw):
        self.opened.append(str(fn))
        return FakeAF(self.files[str(fn)])


ASDF = FakeAsdfMod()
RC = rebind.Rebound(chc, overrides=dict(asdf=ASDF, bitpacked=RB, util=RU))
Cat = RC.CompaSOHaloCatalog

FUNCS = [chc.CompaSOHaloCatalog.__init__, chc.CompaSOHaloCatalog._setup_fields, chc.CompaSOHaloCatalog._read_halo_info,
         chc.CompaSOHaloCatalog._setup_halo_field_loaders, chc.CompaSOHaloCatalog._get_halo_fields_dependencies,
         chc.CompaSOHaloCatalog._load_halo_field, chc.CompaSOHaloCatalog._compute_new_subsample_indices,
         chc.CompaSOHaloCatalog._load_subsamples, chc.CompaSOHaloCatalog._unpack_rv_subsamples, chc.CompaSOHaloCatalog._unpack_pid_subsamples,
         chc.CompaSOHaloCatalog._update_subsample_index_cols, chc.CompaSOHaloCatalog._setup_load_subsamples]


def raw_dtype_of(name):
    """dtype of a raw halo_info / cleaned column, from the package's own dtype tables"""
    for dt in (chc.user_dt, chc.clean_dt_progen, chc.halo_lc_dt):
        if name in dt.names:
            return dt[name]
    return None


RAW_SPECIAL = {}   # raw-only columns: name pattern -> (dtype, trailing shape)


def raw_spec(name):
    """(numpy base dtype, trailing shape) of a raw on-disk column"""
    if name.endswith('_i16'):
        base = name[:-4]
        if base.startswith('sigmar_') or base.startswith('sigman_'):
            return real_np.dtype('i2'), (3,)
        return real_np.dtype('i2'), ()
    if name.endswith('_u16'):
        return real_np.dtype('u2'), ()
    dt = raw_dtype_of(name)
    if dt is None:
        raise KeyError(name)
    if dt.subdtype:
        return dt.subdtype[0], dt.subdtype[1]
    return dt, ()


def sym_raw_column(prefix, name, n, bv=False, nprev=1):
    dt, trail = raw_spec(name)
    if 'mainprog' in name and name not in ('v_L2com_mainprog', 'haloindex_mainprog'):
        trail = (nprev,)
    return common.sym_array(f'{prefix}.{name}', (n,) + tuple(trail), dt, bv=bv)


def install(files):
    ASDF.files = {str(k): v for k, v in files.items()}
    ASDF.opened = []


def construct(groupdir, slabs, cleaned, **kw):
    """Run the real constructor; file discovery (_setup_file_paths, filesystem) is replaced by the
    given superslab list -- it is exercised on real directory trees in C03."""
    cat = Cat.__new__(Cat)
    halo_fns = [pathlib.Path(f'{groupdir}/halo_info/halo_info_{s:03d}.asdf') for s in slabs]
    cfn = [pathlib.Path(f'/clean/cleaned_halo_info/cleaned_halo_info_{s:03d}.asdf') for s in slabs] if cleaned else []
    cat._setup_file_paths = lambda *a, **k: (pathlib.Path(groupdir), pathlib.Path('/clean/cleaned_halo_info') if cleaned else None,
                                             pathlib.Path('/clean/cleaned_rvpid') if cleaned else None, real_np.array(list(slabs)), halo_fns, cfn)
    lc = kw.pop('halo_lc', False)
    # light cones are always cleaned (the reader warns about cleaned=False and switches the cleaning files off itself)
    cat.__init__(groupdir, cleaned=True if lc else cleaned, halo_lc=lc, **kw)
    return cat


# ----------------------------------------------------------------------------------------------
# environment patch: astropy Columns that wrap an SArr buffer keep its logical dtype on stores

import astropy.table
_orig_col_setitem = astropy.table.Column.__setitem__


def _col_setitem(self, index, value):
    if core.ctx() is not None and real_np.ndarray.view(self, real_np.ndarray).dtype == object:
        info = arrays.root_info(self, create=False)
        if info is not None and info.ld is not None and info.ld.dt.kind != 'O':
            dt = info.ld.dt
            if isinstance(value, real_np.ndarray):
                src = real_np.ndarray.view(value, real_np.ndarray)
                v = real_np.empty(src.shape, dtype=object)
                for idx in real_np.ndindex(*src.shape):
                    x = src[idx]
                    v[idx] = arrays.cast_value(x.item() if isinstance(x, real_np.generic) else x, dt)
                value = v
            elif not isinstance(value, (list, tuple)):
                value = arrays.cast_value(value, dt)
    if core.ctx() is not None:
        try:
            info, cells = arrays.cells_of(real_np.ndarray.view(self, real_np.ndarray), index)
            info.wcount[cells] += 1          # write counter (the 'exactly once' obligations)
        except Exception:
            pass
    return _orig_col_setitem(self, index, value)


astropy.table.Column.__setitem__ = _col_setitem


def _col_inplace(name, op):
    """in-place arithmetic of a Column of symbolic cells with a symbolic scalar (numpy would hand the
    operation to a ufunc, which symbolic scalars refuse): computed cell by cell and stored back INTO the
    column's own buffer, so aliasing with the per-file raw table behaves as in numpy"""
    orig = getattr(astropy.table.Column, name)

    def f(self, o):
        raw = real_np.ndarray.view(self, real_np.ndarray)
        if core.ctx() is None or raw.dtype != object:
            return orig(self, o)
        info = arrays.root_info(self, create=False)
        dt = info.ld.dt if (info is not None and info.ld is not None and info.ld.dt.kind != 'O') else None
        ov = real_np.ndarray.view(o, real_np.ndarray) if isinstance(o, real_np.ndarray) else None
        for idx in real_np.ndindex(*raw.shape):
            v = op(raw[idx], real_np.broadcast_to(ov, raw.shape)[idx] if ov is not None else o)
            raw[idx] = arrays.cast_value(v, dt) if dt is not None else v
        return self
    return f


import operator as _op
for _n, _o in (('__imul__', _op.mul), ('__itruediv__', _op.truediv), ('__iadd__', _op.add), ('__isub__', _op.sub)):
    setattr(astropy.table.Column, _n, _col_inplace(_n, _o))


# ----------------------------------------------------------------------------------------------
# lazily materialised raw files: a raw column is created (as named symbolic inputs) the first time
# any load asks for it and shared by every later load on the same path

class LazyData(dict):
    def __init__(self, prefix, n, concrete=None, nprev=2, known=None):
        super().__init__()
        self.prefix, self.n, self.nprev = prefix, n, nprev
        self.known = known
        for k, v in (concrete or {}).items():
            dict.__setitem__(self, k, v)

    def __missing__(self, name):
        c = ctx()
        cache = c.extra.setdefault('rawcols', {})
        key = (self.prefix, name)
        if key not in cache:
            cache[key] = sym_raw_column(self.prefix, name, self.n, nprev=self.nprev)
        dict.__setitem__(self, name, cache[key])
        return cache[key].copy()

    def __getitem__(self, name):
        # every access is a fresh read from "disk": code that scales a raw column in place must not
        # leak into the next field or the next load
        v = dict.__getitem__(self, name) if dict.__contains__(self, name) else self.__missing__(name)
        return v.copy() if isinstance(v, real_np.ndarray) else v

    def __contains__(self, name):
        try:
            raw_spec(name)
            return True
        except KeyError:
            return dict.__contains__(self, name)


def header(c, nprev=2, lc=False):
    # ASDF headers hold BoxSize either as a float or as an integer (e.g. 2000): ctx.extra['int_header'] selects the latter,
    # which matters to numpy's integer-array arithmetic
    hs = z3.IntSort() if c.extra.get('int_header') else z3.RealSort()
    h = {'BoxSize': Sym(c.input('BoxSize', hs)), 'VelZSpace_to_kms': Sym(c.input('VelZSpace_to_kms', hs)),
         'SimName': 'sim', 'Redshift': 0.5, 'ppd': 8, 'TimeSliceRedshiftsPrev': [0.1 * k for k in range(nprev)]}
    c.assume(z3.And(h['BoxSize'].e > 0, h['VelZSpace_to_kms'].e > 0))
    return h


class EulerStub:
    """opaque stand-in for _unpack_euler16 (its own property is C18): three fresh (N,3) triads per
    distinct input column, the same for every load on a path"""

    def __call__(self, codes):
        c = ctx()
        memo = c.extra.setdefault('euler', {})
        # keyed by the code values themselves (each load reads a fresh copy of the raw column)
        key = tuple(core.lift(x).e.get_id() for x in common.cells(codes))
        if key not in memo:
            n = len(codes)
            tag = f'euler{len(memo)}'
            memo[key] = tuple(common.sym_array(f'{tag}.{w}', (n, 3), 'f8') for w in ('minor', 'middle', 'major'))
        return memo[key]


def fresh_files(c, slabs, nh, cleaned, concrete=None, nprev=2, lc=False):
    """file dict for install(): halo_info (+ cleaned) per slab with lazily created raw columns"""
    hdr = header(c, nprev, lc)
    files = {}
    for s in slabs:
        n = nh[s] if isinstance(nh, dict) else nh
        conc = (concrete or {}).get(s, {})
        d = LazyData(f's{s}', n, concrete={k: v for k, v in conc.items() if not k.endswith('_merge') and k not in ('N_total',)}, nprev=nprev)
        d['id']     # at least one materialised column (the reader measures the file length on the first key)
        files[f'/cat/halo_info/halo_info_{s:03d}.asdf'] = {'header': dict(hdr), 'data': d}
        if cleaned:
            cd = LazyData(f'c{s}', n, concrete={k: v for k, v in conc.items() if k.endswith('_merge') or k in ('N_total',)}, nprev=nprev)
            cd['N_total']
            files[f'/clean/cleaned_halo_info/cleaned_halo_info_{s:03d}.asdf'] = {'header': dict(hdr), 'data': cd}
    return files, hdr


# ----------------------------------------------------------------------------------------------
# replay / validation on real ASDF files (checks/realcat.py writes the catalogue)

READER_REPLAY = '''
sys.path.insert(0, {verif!r})
import tempfile, warnings
from checks import realcat
from abacusnbody.data.compaso_halo_catalog import CompaSOHaloCatalog
warnings.simplefilter('ignore')
m = {m!r}
case = {case!r}
info = {info!r}
pid = {pid!r}
cleaned, subs, convert = case['cleaned'], case['subsamples'], case['convert_units']
lc = case.get('lightcone', False)
bad = []
with tempfile.TemporaryDirectory() as d:
    conc, subsA = {{}}, None
    if lc:
        gdir = realcat.write_lc_catalog(d, m, n=2)
        kw = dict(halo_lc=True, convert_units=convert, subsamples=False)
    elif subs:
        conc = {{0: dict(npstartA=np.array([0, 2], dtype=np.uint64), npoutA=np.array([2, 1], dtype=np.uint32),
                        npstartA_merge=np.array([0, 1], dtype=np.int64), npoutA_merge=np.array([1, 0], dtype=np.uint32), N_total=np.array([5, 7], dtype=np.uint32))}}
        subsA = {{0: {{'A': (np.arange(9, dtype=np.int32).reshape(3, 3) * 4096, np.arange(3, dtype=np.int32).reshape(1, 3) * 8192, None, None)}}}}
    if not lc:
        gdir = realcat.write_catalog(d, m, slabs=(0,), nh=2, cleaned=cleaned, subsA=subsA, concrete=conc)
        kw = dict(cleaned=cleaned, convert_units=convert, subsamples=dict(A=True, pos=True) if subs else False)
    def load(fields):
        try:
            return CompaSOHaloCatalog(gdir, fields=fields, **kw), None
        except Exception as ex:
            return None, ex
    req = info.get('request')
    got, err = load(req)
    if err is not None:
        bad.append(f'fields={{req!r}} (cleaned={{cleaned}}, subsamples={{subs}}): raised {{type(err).__name__}}: {{err}}')
    elif info.get('column'):
        col = info['column']
        o = 'N' if (cleaned and col == 'N_total') else col
        ref, rerr = load('all')
        if rerr is None and o in ref.halos.colnames and o in got.halos.colnames:
            a, b = np.asarray(got.halos[o], dtype=float), np.asarray(ref.halos[o], dtype=float)
            if a.shape != b.shape or not np.allclose(a, b, rtol=1e-5, atol=0, equal_nan=True):
                bad.append(f'column {{o}} loaded through fields={{req!r}} = {{a.tolist()}} but {{b.tolist()}} under fields="all"')
            elif not lc:
                # the reader is deterministic: the same column must come out BITWISE identical whatever else was requested.  The solver
                # cannot pick inputs on which a float32/float64 mix-up shows (rounding is opaque to it), so try a catalogue of 64
                # ordinary random halos as well
                with tempfile.TemporaryDirectory() as d2:
                    g2 = realcat.write_catalog(d2, {{}}, slabs=(0,), nh=64 if not subs else 2, cleaned=cleaned, subsA=subsA, concrete=conc)
                    x, y = CompaSOHaloCatalog(g2, fields=req, **kw), CompaSOHaloCatalog(g2, fields='all', **kw)
                    xa, ya = np.asarray(x.halos[o]), np.asarray(y.halos[o])
                    if xa.dtype != ya.dtype or not np.array_equal(xa, ya, equal_nan=True):
                        nd = int((~((xa == ya) | ((xa != xa) & (ya != ya)))).sum()) if xa.shape == ya.shape else -1
                        bad.append(f'column {{o}} is not bitwise the same through fields={{req!r}} and fields="all" on 64 random halos: dtype {{xa.dtype}} vs {{ya.dtype}}, {{nd}} differing cells')
        elif o not in got.halos.colnames:
            bad.append(f'column {{o}} missing from the result of fields={{req!r}}: {{got.halos.colnames}}')
print('case', case, 'request', info.get('request'), 'column', info.get('column'))
for b_ in bad: print('  ', b_)
sys.exit(1 if bad else 0)
'''


def replay_reader(e, path, pid):
    info = dict(e['info'])
    case = info.pop('case', {})
    body = READER_REPLAY.format(verif=harness.VERIF, m=e.get('model', {}), case=case, info=info, pid=pid)
    return common.write_replay(path, body)


def validate_reader():
    """The real constructor on a real two-halo catalogue written to disk vs the engine on the same raw
    values (concrete mode): x_com, v_com, r25_com, sigmav3d_com, N."""
    import tempfile
    from checks import realcat
    import warnings
    n = 0
    with tempfile.TemporaryDirectory() as d, warnings.catch_warnings():
        warnings.simplefilter('ignore')
        gdir = realcat.write_catalog(d, {}, slabs=(0,), nh=2, cleaned=False, box=2000.0, velz=1234.0)
        fields = ['N', 'x_com', 'v_com', 'r25_com', 'sigmav3d_com', 'sigman_L2com']
        real = chc.CompaSOHaloCatalog(gdir, cleaned=False, fields=fields)
        import asdf as real_asdf
        with real_asdf.open(f'{gdir}/halo_info/halo_info_000.asdf') as af:
            raw = {k: real_np.array(af['data'][k]) for k in af['data']}

        def body():
            c = ctx()
            hdr = {'BoxSize': 2000.0, 'VelZSpace_to_kms': 1234.0, 'SimName': 'sim', 'Redshift': 0.5, 'ppd': 8}
            install({'/cat/halo_info/halo_info_000.asdf': {'header': hdr, 'data': {k: arrays.as_sarr(v) for k, v in raw.items()}}})
            cat = construct('/cat', [0], False, fields=fields)
            return {k: [float(x) for x in real_np.asarray(cat.halos[k]).ravel()] for k in fields}
        res = core.explore(body)
        assert len(res) == 1 and res[0].exc is None, (res[0].exc, res[0].events)
        for k in fields:
            assert real_np.allclose(res[0].ret[k], real_np.asarray(real.halos[k], dtype=float).ravel(), rtol=2e-6), k
            n += 1
    return n
