"""C14 -- Blosc block decompression is independent of how the stream is chunked.

The real BloscCompressor.decompress / .compress bodies run with the codec stubbed by its
contract.  The compressed stream is F frames of free symbolic lengths; it is handed over in
k+1 chunks cut at free symbolic positions (so chunks of length 0 or 1, cuts inside a 4-byte
length prefix and inside a frame are all models of one run).  Buffers are intervals of the
original stream with symbolic end points; all reasoning is linear integer arithmetic."""
import sys
import struct as real_struct
import time
import types
import z3
from checks import common
common.fake_modules()
from checks.common import Sym, ctx, core, arrays, rebind, harness
import abacusnbody.data.asdf as aasdf

ID = 'C14'
BOUNDS = {
    'quick': 'decompress: F in 1..2 frames of free compressed length >= 1 and free decompressed length >= 0, cut into 1..3 chunks at free '
             'positions (0 <= c1 <= c2 <= len); compress: payload of N in 0..6 items, item size in {1,2,4,8}, compression block of 1..3 items',
    'thorough': 'decompress: F in 1..4, up to 5 chunks (4 cuts; F=3 up to 3 cuts, F=4 up to 2 cuts); compress: N in 0..12, block of 1..5 items',
}
OUTSIDE = 'the codec itself (contract stub: decompress_ptr(frame, addr) writes the frame\'s payload at addr and returns its length; ' \
          'compress returns an opaque frame of >= 1 byte); asdf\'s chunking policy (any policy is a model); more frames/cuts than the bound ' \
          '(the state machine resets after each frame: _size=0, _buffer=None, _partial_len empty)'
STUBS = ['blosc.decompress_ptr / blosc.compress / set_nthreads / set_blocksize: contract stubs', 'struct.unpack("!I") on a 4-byte interval of the '
         'stream: the length of the frame whose prefix it is (reading anything else is reported)', 'memoryview / np.frombuffer / np.empty(np.byte): '
         'interval objects with symbolic end points', 'time.perf_counter: real']
ASSUMPTIONS = ['every compressed frame has length >= 1 (a blosc frame has a 16-byte header)', 'chunks arrive in stream order and cover the stream exactly']
MUST_COVER = {'abacusnbody.data.asdf.BloscCompressor.decompress': 4,   # error raises for non-contiguous buffers, py<3.8 fallback
              'abacusnbody.data.asdf.BloscCompressor.compress': 7}     # shuffle / typesize option variants

FUNCS = [aasdf.BloscCompressor.decompress, aasdf.BloscCompressor.compress]


def sources():
    return rebind.source_hash(*FUNCS)


def I(x):
    return core.lift(x).as_int() if isinstance(x, Sym) else z3.IntVal(int(x))


class Buf:
    """A piece of the compressed stream: [a, b) with symbolic end points (python ints or Sym)."""
    contiguous = True

    def __init__(self, a, b):
        self.a, self.b = a, b

    def cast(self, *a):
        return self

    def toreadonly(self):
        return self

    def __len__(self):
        raise core.ModelGap('builtin len() on a symbolic buffer: len must be re-bound')

    def length(self):
        return self.b - self.a

    def __getitem__(self, s):
        if not isinstance(s, slice) or s.step is not None:
            raise core.ModelGap('buffer indexing other than a plain slice')
        n = self.length()
        lo = 0 if s.start is None else core.smin(core.smax(s.start, 0), n)
        hi = n if s.stop is None else core.smin(core.smax(s.stop, 0), n)
        hi = core.smax(hi, lo)
        return Buf(self.a + lo, self.a + hi)

    def __radd__(self, o):      # b'' + block  /  bytes-like + block
        if isinstance(o, (bytes, bytearray)) and len(o) == 0:
            return Buf(self.a, self.b)
        if isinstance(o, Buf):
            return o + self
        raise core.ModelGap('concatenation with concrete bytes')

    def __add__(self, o):
        if isinstance(o, (bytes, bytearray)) and len(o) == 0:
            return self
        c = ctx()
        if not c.prove(I(self.b) == I(o.a), 'pieces concatenated into one buffer are adjacent in the stream', key='decompress:adjacent'):
            raise core.StopPath()
        return Buf(self.a, o.b)

    def __iadd__(self, o):
        return self + o

    def __bool__(self):
        return bool(core.lift(self.length()) != 0)


class ByteArr:
    """np.empty(n, dtype=np.byte): symbolic length, records what is copied where."""

    def __init__(self, n):
        self.n = n
        self.pieces = []    # (dest_lo, dest_hi, Buf)

    def __setitem__(self, s, v):
        if not isinstance(s, slice) or not isinstance(v, Buf):
            raise core.ModelGap('unexpected store into the reassembly buffer')
        c = ctx()
        lo, hi = s.start or 0, s.stop
        ok = c.prove(z3.And(I(lo) >= 0, I(hi) <= I(self.n), I(hi) - I(lo) == I(v.length())),
                     'a copy into the reassembly buffer stays inside it and has the source\'s length', key='decompress:buffer-bounds')
        if not ok:
            raise core.StopPath()
        self.pieces.append((lo, hi, v))


class State:
    pass


def make_ns(st):
    """Globals for the re-bound methods: numpy / struct / blosc / memoryview / len / min shims."""
    def s_len(x):
        if isinstance(x, Buf):
            return x.length()
        if isinstance(x, (bytes, bytearray)):
            return len(x)
        if isinstance(x, DataBuf):
            return x.n
        if isinstance(x, Frame):
            return x.n
        return len(x)

    def s_memoryview(x):
        return x

    class NPX:
        byte = 'byte'
        uint8 = 'uint8'

        @staticmethod
        def frombuffer(x, dtype=None):
            if isinstance(x, OutBuf):
                return x
            return x

        @staticmethod
        def empty(n, dtype=None):
            return ByteArr(n)

    class StructX:
        @staticmethod
        def unpack(fmt, buf):
            c = ctx()
            assert fmt == '!I'
            if not isinstance(buf, Buf):
                raise core.ModelGap('struct.unpack on concrete bytes')
            st.prefix_reads += 1
            for f in range(st.F):
                if c.feasible(z3.And(I(buf.a) == I(st.pre[f]), I(buf.b) == I(st.pre[f]) + 4)):
                    if c.prove(z3.And(I(buf.a) == I(st.pre[f]), I(buf.b) == I(st.pre[f]) + 4),
                               'the 4 bytes decoded as a length are exactly one frame\'s length prefix', key='decompress:prefix'):
                        return (st.size[f],)
                    raise core.StopPath()
            c.report('violation', 'a length is decoded from 4 bytes that are not a frame\'s length prefix', key='decompress:prefix')
            raise core.StopPath()

        @staticmethod
        def pack(fmt, n):
            return Header(n)

    class BloscX:
        SHUFFLE, BITSHUFFLE, NOSHUFFLE = 1, 2, 0

        @staticmethod
        def set_nthreads(n):
            pass

        @staticmethod
        def set_blocksize(n):
            pass

        @staticmethod
        def decompress_ptr(mv, addr, **kw):
            c = ctx()
            f = st.next_frame
            if f >= st.F:
                c.report('violation', 'decompress_ptr called more often than there are frames', key='decompress:frames')
                raise core.StopPath()
            pay_lo = st.pre[f] + 4
            if isinstance(mv, Buf):
                ok = c.prove(z3.And(I(mv.a) == I(pay_lo), I(mv.b) == I(pay_lo) + I(st.size[f])),
                             'decompress_ptr receives exactly the next frame\'s payload', key='decompress:payload')
            else:
                # reassembled buffer: pieces must tile [0, size) in order with the matching stream bytes
                conds = [I(mv.n) == I(st.size[f])]
                pos = 0
                for lo, hi, b in mv.pieces:
                    conds += [I(lo) == I(pos), I(b.a) == I(pay_lo) + I(lo)]
                    pos = hi
                conds.append(I(pos) == I(st.size[f]))
                ok = c.prove(z3.And(conds), 'the reassembled buffer is exactly the next frame\'s payload, complete and in order', key='decompress:payload')
            ok = c.prove(I(addr) == I(st.out_addr) + sum((I(st.nout[g]) for g in range(f)), z3.IntVal(0)),
                         'each frame is decompressed right after the previous one in the output', key='decompress:address') and ok
            if not ok:
                raise core.StopPath()
            st.next_frame += 1
            return st.nout[f]

        @staticmethod
        def compress(data, **kw):
            st.compress_calls.append((data, kw))
            c = ctx()
            n = Sym(c.fresh(z3.IntSort(), 'clen'))
            c.add(n.e >= 1)
            return Frame(n, data)

    G = dict(np=NPX, struct=StructX, blosc=BloscX, memoryview=s_memoryview, len=s_len, min=core.smin, range=core.srange, time=time)
    return G


class OutBuf:
    contiguous = True

    def __init__(self, addr):
        self.ctypes = types.SimpleNamespace(data=addr)


class DataBuf:
    """The array handed to compress(): n items of `itemsize` bytes; slices remember their item range."""
    contiguous = True

    def __init__(self, lo, hi, itemsize, total):
        self.lo, self.hi, self.itemsize, self.total = lo, hi, itemsize, total
        self.n = hi - lo

    def __getitem__(self, s):
        lo = min(max(s.start or 0, 0), self.n)
        hi = min(max(s.stop if s.stop is not None else self.n, 0), self.n)
        return DataBuf(self.lo + lo, self.lo + max(hi, lo), self.itemsize, self.total)


class Header:
    def __init__(self, n):
        self.n = n

    def __add__(self, o):
        return (self, o)


class Frame:
    def __init__(self, n, data):
        self.n, self.data = n, data


def rebound(name, G):
    f = getattr(aasdf.BloscCompressor, name)
    g = dict(f.__globals__)
    g.update(G)
    return types.FunctionType(f.__code__, g, f.__name__, f.__defaults__, f.__closure__)


def body_decompress(F, ncuts):
    c = ctx()
    case = dict(kind='decompress', frames=F, cuts=ncuts)
    c.extra['case'] = case
    c.extra['keyprefix'] = 'decompress:'
    st = State()
    st.F = F
    st.size = [Sym(c.input(f'size[{f}]', z3.IntSort())) for f in range(F)]
    st.nout = [Sym(c.input(f'nout[{f}]', z3.IntSort())) for f in range(F)]
    for f in range(F):
        c.assume(z3.And(st.size[f].e >= 1, st.nout[f].e >= 0))
    st.pre = []
    pos = 0
    for f in range(F):
        st.pre.append(pos)
        pos = pos + 4 + st.size[f]
    total = pos
    st.out_addr = Sym(c.input('out_addr', z3.IntSort()))
    st.next_frame = 0
    st.prefix_reads = 0
    st.compress_calls = []
    cuts = [Sym(c.input(f'cut[{k}]', z3.IntSort())) for k in range(ncuts)]
    prev = 0
    for k in range(ncuts):
        c.assume(z3.And(I(cuts[k]) >= I(prev), I(cuts[k]) <= I(total)))
        prev = cuts[k]
    bounds = [0] + cuts + [total]
    blocks = [Buf(bounds[k], bounds[k + 1]) for k in range(len(bounds) - 1)]
    dec = rebound('decompress', make_ns(st))
    ret = dec(None, blocks, OutBuf(st.out_addr))
    c.extra['sample'] = dict(case, frames_decompressed=st.next_frame, prefix_reads=st.prefix_reads, path_decisions=len(c.taken))
    c.prove(z3.BoolVal(st.next_frame == F and st.prefix_reads == F), 'every frame is decompressed exactly once, each length prefix read once', key='decompress:frames')
    c.prove(I(ret) == sum((I(n) for n in st.nout), z3.IntVal(0)), 'the reported length is the sum of the frames\' decompressed lengths', key='decompress:length')


def body_compress(itemsize, blk_items):
    c = ctx()
    case = dict(kind='compress', itemsize=itemsize, block_items=blk_items)
    c.extra['case'] = case
    c.extra['keyprefix'] = 'compress:'
    st = State()
    st.compress_calls = []
    N = Sym(c.input('N', z3.IntSort()))
    c.assume(z3.And(N.e >= 0, N.e <= BND['N']))
    n = c.concretize(N.e, what='payload items')
    data = DataBuf(0, n, itemsize, n)
    comp = rebound('compress', make_ns(st))
    out = list(comp(None, data, compression_block_size=blk_items * itemsize))
    c.extra['sample'] = dict(case, N=n, frames=len(out))
    pos = 0
    ok = True
    for (hdr, fr), (d, kw) in zip(out, st.compress_calls):
        ok = ok and isinstance(hdr, Header) and hdr.n is fr.n and d.lo == pos and d.hi > d.lo and d.hi - d.lo <= blk_items and kw.get('typesize') == itemsize
        pos = d.hi
    ok = ok and pos == n and len(out) == len(st.compress_calls) == -(-n // blk_items)
    c.prove(z3.BoolVal(ok), 'frames cover the payload in order without gap or overlap, each prefixed by its own compressed length', key='compress:cover')


BND = {'N': 6}


def items(tier, seed):
    out = []
    Fs, cuts = ((1, 2), (0, 1, 2)) if tier == 'quick' else ((1, 2, 3, 4), (0, 1, 2, 3, 4))
    for F in Fs:
        for k in cuts:
            if (F == 3 and k > 3) or (F == 4 and k > 2):
                continue
            out.append(dict(name=f'decompress/frames={F}/cuts={k}', kind='decompress', F=F, cuts=k))
    for isz in (1, 2, 4, 8):
        for blk in ((1, 2, 3) if tier == 'quick' else (1, 2, 3, 4, 5)):
            out.append(dict(name=f'compress/itemsize={isz}/block={blk}', kind='compress', isz=isz, blk=blk, N=6 if tier == 'quick' else 12))
    return out


def run(item):
    if item['kind'] == 'decompress':
        return common.run_paths(lambda: body_decompress(item['F'], item['cuts']), cov_funcs=FUNCS, max_paths=200000)[0]
    BND['N'] = item['N']
    return common.run_paths(lambda: body_compress(item['isz'], item['blk']), cov_funcs=FUNCS)[0]


class RealStub:
    """the same contract with concrete bytes: frame = b'Z' + payload (identity codec)"""
    SHUFFLE, BITSHUFFLE, NOSHUFFLE = 1, 2, 0

    def __init__(self):
        self.out = bytearray()

    def set_nthreads(self, n):
        pass

    def set_blocksize(self, n):
        pass

    def compress(self, data, **kw):
        return b'Z' + bytes(data)

    def decompress_ptr(self, mv, addr, **kw):
        b = bytes(mv)
        assert b[:1] == b'Z'
        assert addr == self.base + len(self.out)
        self.out += b[1:]
        return len(b) - 1


def validate(tier):
    """The real methods, unmodified and on real bytes, with an identity codec standing in for
    blosc (absent from the sandbox): round trip for every chunking of a small stream.  This
    validates the interval model's reading of the state machine on concrete inputs."""
    import numpy as np
    import itertools
    n = 0
    data = np.arange(7, dtype=np.int16)
    stub = RealStub()
    G = dict(blosc=stub)
    comp = rebound('compress', G)
    dec = rebound('decompress', G)
    stream = b''.join(comp(None, memoryview(data), compression_block_size=6))
    for cuts in itertools.combinations_with_replacement(range(len(stream) + 1), 2):
        stub.out = bytearray()
        out = np.zeros(data.nbytes, dtype=np.uint8)
        stub.base = out.ctypes.data
        b = [0] + list(cuts) + [len(stream)]
        blocks = [stream[b[i]:b[i + 1]] for i in range(len(b) - 1)]
        got = dec(None, blocks, memoryview(out))
        assert got == data.nbytes and bytes(stub.out) == data.tobytes(), cuts
        n += 1
    return n


def replay(e, path):
    i = e['info'].get('case', {})
    m = e.get('model', {})
    body_ = f'''
# The real BloscCompressor methods on real bytes, with an identity codec standing in for the
# blosc module (absent from this sandbox): frame = b'Z' + payload.
import types
import abacusnbody.data.asdf as aasdf
m = {m!r}
case = {i!r}
class Stub:
    SHUFFLE, BITSHUFFLE, NOSHUFFLE = 1, 2, 0
    def __init__(self): self.out = bytearray(); self.calls = 0
    def set_nthreads(self, n): pass
    def set_blocksize(self, n): pass
    def compress(self, data, **kw): return b'Z' + bytes(data)
    def decompress_ptr(self, mv, addr, **kw):
        b = bytes(mv); self.calls += 1
        if b[:1] != b'Z': raise ValueError('not a frame boundary')
        if addr != self.base + len(self.out): raise ValueError('wrong output address')
        self.out += b[1:]; return len(b) - 1
def rb(name, G):
    f = getattr(aasdf.BloscCompressor, name); g = dict(f.__globals__); g.update(G)
    return types.FunctionType(f.__code__, g, f.__name__, f.__defaults__, f.__closure__)
bad = []
stub = Stub()
if case['kind'] == 'decompress':
    F = case['frames']
    sizes = [max(1, int(m.get(f'size[{{f}}]', 1))) for f in range(F)]
    payloads = [bytes([65 + f]) * (s - 1) for f, s in enumerate(sizes)]
    import struct
    stream = b''.join(struct.pack('!I', len(p) + 1) + b'Z' + p for p in payloads)
    cuts = sorted(min(max(int(m.get(f'cut[{{k}}]', 0)), 0), len(stream)) for k in range(case['cuts']))
    b = [0] + cuts + [len(stream)]
    blocks = [stream[b[k]:b[k + 1]] for k in range(len(b) - 1)]
    out = np.zeros(sum(len(p) for p in payloads) + 8, dtype=np.uint8)
    stub.base = out.ctypes.data
    try:
        got = rb('decompress', dict(blosc=stub))(None, blocks, memoryview(out))
        if bytes(stub.out) != b''.join(payloads) or got != sum(len(p) for p in payloads) or stub.calls != F:
            bad.append(f'decompressed {{bytes(stub.out)!r}} (reported {{got}}, {{stub.calls}} calls) from chunks {{[len(x) for x in blocks]}}, expected {{b"".join(payloads)!r}}')
    except Exception as ex:
        bad.append(f'decompress raised {{type(ex).__name__}}: {{ex}} for chunks {{[len(x) for x in blocks]}} of frames {{sizes}}')
else:
    isz, blk, N = case['itemsize'], case['block_items'], int(m.get('N', 0))
    data = np.arange(N * isz, dtype=np.uint8).view({{1: np.uint8, 2: np.uint16, 4: np.uint32, 8: np.uint64}}[isz])
    stream = b''.join(rb('compress', dict(blosc=stub))(None, memoryview(data), compression_block_size=blk * isz))
    out = np.zeros(data.nbytes + 8, dtype=np.uint8); stub.base = out.ctypes.data
    got = rb('decompress', dict(blosc=stub))(None, [stream], memoryview(out))
    if bytes(stub.out) != data.tobytes() or got != data.nbytes: bad.append(f'round trip of {{N}} items of {{isz}} bytes, block {{blk}} items: got {{got}} bytes')
print('case', case)
for b_ in bad: print('  ', b_)
sys.exit(1 if bad else 0)
'''
    return common.write_replay(path, body_)


if __name__ == '__main__':
    sys.exit(harness.main(__import__('checks.c14', fromlist=['x'])))
