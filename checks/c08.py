"""C08 -- every Fourier mode is binned exactly once into the right (k, mu) / (k_perp, k_par) bin.

The real bin_kmu / bin_kppi py_func bodies (with P_n, n_choose_k, factorial) run on a mesh of
free symbolic values with free symbolic bin edges; every comparison between a mode and an edge
forks, so each path fixes the position of every edge relative to the mesh's wavenumbers.  The
oracle is a brute force over the FULL n^3 mesh with integer fftfreq frequencies."""
import sys
import itertools
import fractions
import numpy as real_np
import z3
from checks import common
from checks.common import Sym, SArr, ctx, core, arrays, rebind, harness
from symnb import npshim
import abacusnbody.analysis.power_spectrum as ps

ID = 'C08'
BOUNDS = {
    'quick': 'mesh n1d in {2,3,4} (odd and even); bin_kmu: Nk in {1,2} free increasing k edges (> 0, anywhere below or above Nyquist), '
             'mu edges [0, m, 1] with free m or [0,1]; poles in {(), (0,2), (0,2,4)}; bin_kppi: Nk in {1,2}, free pimax, Npi in {1,2}; '
             'fourier in {T,F}; nthread in {1,2} (2 only for n1d<=3); mesh values free reals; thread ids free per prange iteration; '
             'see items() for the exact combinations'
             '; also: multipole sets (2,0), (4,2,0), (2,4), (2,0,4), (0,1,2,3,4), (1,3); ambient numba thread count 1 with nthread=2',
    'thorough': 'n1d in {2..6}; Nk up to 3; nthread up to 3; more (mu, poles, Npi) combinations',
}
OUTSIDE = 'modes lying exactly on a bin edge (the property does not fix open/closed ends: excluded by assumption); float32 rounding ' \
          'of |k|^2, mu^2 and the Legendre weights (exact rationals in the model); mesh sizes and bin counts above the bound'
STUBS = ['numba.get_thread_id(): a free integer in [0, nthread) per prange iteration (scheduler\'s choice)',
         'np.sqrt of a non-square integer: the non-negative root as a fresh real r with r*r = v (shared by code and oracle)']
ASSUMPTIONS = ['floats are reals', 'no mode lies exactly on a bin edge (so the first k edge is > 0: with an edge at exactly 0 the k=0 mode is such a tie)', 'k edges increasing and >= 0; mu edges increasing from 0 to 1',
               'box size chosen so that the fundamental is 1 (L = 2 pi in Fourier space, L = n1d in configuration space); edges are free']
MUST_COVER = {'abacusnbody.analysis.power_spectrum.bin_kmu': 1, 'abacusnbody.analysis.power_spectrum.bin_kppi': 0,
              'abacusnbody.analysis.power_spectrum.P_n': 0}

R = rebind.Rebound(ps)
FUNCS = [ps.bin_kmu, ps.bin_kppi, ps.P_n, ps.n_choose_k, ps.factorial]


def sources():
    return rebind.source_hash(*FUNCS)


def freq(i, n):
    return i if i < (n + 1) // 2 or (n % 2 == 0 and i < n // 2) else i - n


def fftfreq(n):
    return [int(v) for v in real_np.fft.fftfreq(n, 1.0 / n)]


def legendre(l, mu2):
    """(2l+1) * L_l(mu) for even l as a polynomial in mu^2 (exact rationals); odd l via sqrt."""
    F = fractions.Fraction
    if l == 0:
        return F(1)
    if l == 2:
        return 5 * (3 * mu2 - 1) / 2
    if l == 4:
        return 9 * (35 * mu2 * mu2 - 30 * mu2 + 3) / 8
    raise ValueError(l)


def full_modes(n1d):
    """Every mode of the full n^3 mesh: integer frequencies and the rfft cell holding its value
    (a mode with negative z frequency takes the value of its conjugate partner)."""
    fr = fftfreq(n1d)
    out = []
    for a in range(n1d):
        for b in range(n1d):
            for cc in range(n1d):
                fa, fb, fc = fr[a], fr[b], fr[cc]
                if fc >= 0 or (n1d % 2 == 0 and cc == n1d // 2):
                    cell = (a, b, abs(fc))
                else:
                    cell = ((-a) % n1d, (-b) % n1d, -fc)
                out.append((fa, fb, fc, cell))
    return out


def below(x2, v):
    """is edge^2 < v on this path?  Forks when the path has not decided it (memoised per path)."""
    if isinstance(x2, Sym):
        memo = ctx().extra.setdefault('below', {})
        key = (x2.e.get_id(), str(v))
        if key not in memo:
            memo[key] = (x2, bool(x2 < v))
        return memo[key][1]
    return x2 < v


def setup_edges(c, name, n, lo_zero=False, hi_one=False):
    e = SArr((n,), 'f8', fill=None, name=name)
    prev = None
    for b in range(n):
        if b == 0 and lo_zero:
            v = 0.0
        elif b == n - 1 and hi_one:
            v = 1.0
        else:
            v = Sym(c.input(f'{name}[{b}]', z3.RealSort()))
            c.assume(v.e >= 0)
            if hi_one:
                c.assume(v.e < 1)
        if prev is not None:
            c.assume(core._b(core.lift(v) > core.lift(prev)))
        real_np.ndarray.__setitem__(e, b, v)
        prev = v
    return e


def sq(v):
    return v * v


def body_kmu(n1d, Nk, mu_free, poles, fourier, nthread, k0_zero, ambient=None):
    c = ctx()
    case = dict(kind='kmu', n1d=n1d, Nk=Nk, mu_free=mu_free, poles=list(poles), fourier=fourier, nthread=nthread, k0_zero=k0_zero, ambient=ambient)
    c.extra['case'] = case
    c.extra['keyprefix'] = 'kmu:'
    c.log_access = True
    kz = n1d // 2 + 1
    modes = full_modes(n1d)
    k2vals = sorted({fa * fa + fb * fb + fc * fc for fa, fb, fc, _ in modes})
    mu2vals = sorted({fractions.Fraction(fc * fc, fa * fa + fb * fb + fc * fc) if (fa or fb or fc) else fractions.Fraction(0)
                      for fa, fb, fc, _ in modes})
    kedges = setup_edges(c, 'kedges', Nk + 1, lo_zero=k0_zero)
    muedges = setup_edges(c, 'muedges', 3 if mu_free else 2, lo_zero=True, hi_one=True)
    for e in common.cells(kedges):
        if isinstance(e, Sym):
            for v in k2vals:
                c.assume((e.e * e.e) != v, 'no mode lies exactly on a bin edge')
    for e in common.cells(muedges):
        if isinstance(e, Sym):
            for v in mu2vals:
                c.assume((e.e * e.e) != z3.RealVal(str(v)))
    W = common.sym_array('P', (n1d, n1d, kz), 'f4')
    L = 2.0 * real_np.pi if fourier else float(n1d)
    rebind.NB.reset(max(nthread, 1))
    if ambient:
        # numba's thread count is global state: an earlier call of the package may have left fewer threads in force
        rebind.NB._nthreads = ambient
    parr = arrays.as_sarr(real_np.array(list(poles), dtype=real_np.int64))
    out = R.bin_kmu(n1d, L, kedges, muedges, W, poles=parr, dtype=arrays.T('f4'), fourier=fourier, nthread=nthread)
    wc, cnt, wpoles, cpoles, wk = out
    Nmu = len(muedges) - 1
    # ---- oracle: brute force over the full mesh
    ke2 = [sq(core.lift(x)) if isinstance(x, Sym) else x * x for x in common.cells(kedges)]
    me2 = [sq(core.lift(x)) if isinstance(x, Sym) else x * x for x in common.cells(muedges)]
    ecount = [[0] * Nmu for _ in range(Nk)]
    esum = [[0.0] * Nmu for _ in range(Nk)]
    eksum = [[0.0] * Nmu for _ in range(Nk)]
    epole = [[0.0] * Nk for _ in poles]
    binmodes = [[] for _ in range(Nk)]      # (mesh cell symbol, mu) of every mode of a k bin, for the odd multipoles
    for fa, fb, fc, cell in modes:
        k2 = fa * fa + fb * fb + fc * fc
        mu2 = fractions.Fraction(fc * fc, k2) if k2 else fractions.Fraction(0)
        if below(ke2[0], k2) is False or below(ke2[-1], k2):
            continue           # outside the binned k range
        b = 0
        while below(ke2[b + 1], k2):
            b += 1
        m = 0
        mv = float(mu2)
        while m + 1 < Nmu and below(me2[m + 1], mu2):
            m += 1
        val = common.cell(W, *cell)
        ecount[b][m] += 1
        binmodes[b].append((val, abs(fc) / float(k2) ** 0.5 if k2 else 0.0))
        esum[b][m] = esum[b][m] + val
        eksum[b][m] = eksum[b][m] + npshim.sqrt(float(k2))
        for ip, l in enumerate(poles):
            if l % 2 == 0 and l <= 4:
                epole[ip][b] = epole[ip][b] + val * legendre(l, mu2)
    c.extra['sample'] = dict(case, expected_counts=ecount)
    ok = True
    info = dict(expected_counts=ecount)
    for b in range(Nk):
        for m in range(Nmu):
            got = core.lift(common.cell(cnt, b, m))
            ok = c.prove(got.as_int() == ecount[b][m], 'mode count of a (k,mu) bin = number of full-mesh modes inside it (independent of thread ids)',
                         key='kmu:count', info=info) and ok
    if not ok:
        return
    for b in range(Nk):
        tot = sum(ecount[b])
        ok = c.prove(core.lift(common.cell(cpoles, b)).as_int() == tot, 'mode count per k bin', key='kmu:count') and ok
        for m in range(Nmu):
            n = ecount[b][m]
            gotw, gotk = core.lift(common.cell(wc, b, m)).as_real(), core.lift(common.cell(wk, b, m)).as_real()
            if n:
                ok = c.prove(gotw * n == core.lift(esum[b][m]).as_real(), 'bin value = mean of the mesh value over exactly the modes of the bin', key='kmu:mean') and ok
                ok = c.prove(gotk * n == core.lift(eksum[b][m]).as_real(), 'bin |k| = mean |k| over exactly the modes of the bin', key='kmu:kmean') and ok
            else:
                ok = c.prove(z3.And(gotw == 0, gotk == 0), 'empty bins stay zero', key='kmu:mean') and ok
        for ip, l in enumerate(poles):
            if l % 2 == 1 and l <= 5:
                # odd multipoles: (2l+1) L_l(mu) is irrational in general, so the row (a linear form in the mesh values) is checked
                # coefficient by coefficient: substituting 1 for one mesh value and 0 for the others must leave (2l+1) L_l(mu_i)/count
                gotp = core.lift(common.cell(wpoles, ip, b)).as_real()
                syms = {}
                for val, mu in binmodes[b]:
                    e_ = core.lift(val).as_real()
                    ent = syms.setdefault(e_.get_id(), [e_, 0.0])
                    ent[1] += (2 * l + 1) * {1: mu, 3: (5 * mu ** 3 - 3 * mu) / 2, 5: (63 * mu ** 5 - 70 * mu ** 3 + 15 * mu) / 8}[l]
                allv = [core.lift(common.cell(W, *idx)).as_real() for idx in real_np.ndindex(n1d, n1d, kz)]
                good, worst = True, 0.0
                for key_, (e_, coef) in syms.items():
                    sub = [(v, z3.RealVal(1 if v.get_id() == key_ else 0)) for v in allv]
                    r = z3.simplify(z3.substitute(gotp * tot, *sub))
                    if not z3.is_rational_value(r):
                        good = False
                        break
                    gotc = float(fractions.Fraction(r.numerator_as_long(), r.denominator_as_long()))
                    worst = max(worst, abs(gotc - coef))
                    good = good and abs(gotc - coef) <= 1e-6 * (1 + abs(coef))
                if tot:
                    ok = c.prove(z3.BoolVal(good), f'l={l} multipole = mean of (2l+1) L_l(mu) x value over the modes of the k bin (odd l: coefficient of every mesh value)',
                                 key='kmu:pole', info=dict(worst_coefficient_error=worst)) and ok
                continue
            if l % 2 or l > 4:
                continue
            gotp = core.lift(common.cell(wpoles, ip, b)).as_real()
            if tot:
                ok = c.prove(gotp * tot == core.lift(epole[ip][b]).as_real(),
                             f'l={l} multipole = mean of (2l+1) L_l(mu) x value over the modes of the k bin', key='kmu:pole') and ok
            else:
                ok = c.prove(gotp == 0, 'empty k bins stay zero', key='kmu:pole') and ok


def body_kppi(n1d, Nk, Npi, fourier, nthread, k0_zero, ambient=None):
    c = ctx()
    case = dict(kind='kppi', n1d=n1d, Nk=Nk, Npi=Npi, fourier=fourier, nthread=nthread, k0_zero=k0_zero, ambient=ambient)
    c.extra['case'] = case
    c.extra['keyprefix'] = 'kppi:'
    c.log_access = True
    kz = n1d // 2 + 1
    modes = full_modes(n1d)
    kp2vals = sorted({fa * fa + fb * fb for fa, fb, fc, _ in modes})
    kz2vals = sorted({fc * fc for fa, fb, fc, _ in modes})
    kedges = setup_edges(c, 'kedges', Nk + 1, lo_zero=k0_zero)
    pimax = Sym(c.input('pimax', z3.RealSort()))
    c.assume(pimax.e > 0)
    for e in common.cells(kedges):
        if isinstance(e, Sym):
            for v in kp2vals:
                c.assume((e.e * e.e) != v, 'no mode lies exactly on a bin edge')
    for t in range(1, Npi + 1):
        for v in kz2vals:
            c.assume(pimax.e * pimax.e * t * t != v * Npi * Npi)
    W = common.sym_array('P', (n1d, n1d, kz), 'f4')
    L = 2.0 * real_np.pi if fourier else float(n1d)
    rebind.NB.reset(max(nthread, 1))
    if ambient:
        # numba's thread count is global state: an earlier call of the package may have left fewer threads in force
        rebind.NB._nthreads = ambient
    wc, cnt = R.bin_kppi(n1d, L, kedges, pimax, Npi, W, dtype=arrays.T('f4'), fourier=fourier, nthread=nthread)
    ke2 = [sq(core.lift(x)) if isinstance(x, Sym) else x * x for x in common.cells(kedges)]
    pe2 = [sq(pimax * fractions.Fraction(t, Npi)) if t else 0 for t in range(Npi + 1)]
    ecount = [[0] * Npi for _ in range(Nk)]
    esum = [[0.0] * Npi for _ in range(Nk)]
    for fa, fb, fc, cell in modes:
        kp2, kz2 = fa * fa + fb * fb, fc * fc
        if below(ke2[0], kp2) is False or below(ke2[-1], kp2):
            continue
        if below(pe2[-1], kz2):
            continue
        b = 0
        while below(ke2[b + 1], kp2):
            b += 1
        m = 0
        while below(pe2[m + 1], kz2):
            m += 1
        ecount[b][m] += 1
        esum[b][m] = esum[b][m] + common.cell(W, *cell)
    c.extra['sample'] = dict(case, expected_counts=ecount)
    info = dict(expected_counts=ecount)
    ok = True
    for b in range(Nk):
        for m in range(Npi):
            got = core.lift(common.cell(cnt, b, m))
            ok = c.prove(got.as_int() == ecount[b][m], 'mode count of a (k_perp, k_par) bin = number of full-mesh modes inside it',
                         key='kppi:count', info=info) and ok
    if not ok:
        return
    for b in range(Nk):
        for m in range(Npi):
            n = ecount[b][m]
            gotw = core.lift(common.cell(wc, b, m)).as_real()
            if n:
                c.prove(gotw * n == core.lift(esum[b][m]).as_real(), 'bin value = mean of the mesh value over exactly the modes of the bin', key='kppi:mean')
            else:
                c.prove(gotw == 0, 'empty bins stay zero', key='kppi:mean')


def items(tier, seed):
    """(n1d, fourier, nthread, Nk, mu_free, poles) for bin_kmu and (n1d, fourier, nthread, Nk, Npi) for bin_kppi.
    Path counts grow with the number of distinct |k|^2 values times the number of free edges, and the per-thread
    accumulators add If-chains, so the richer combinations are kept for the thorough tier."""
    kmu, kppi = [], []
    for n in (2, 3, 4):
        for F in (True, False):
            kmu.append((n, F, 1, 1, False, ()))
            kppi.append((n, F, 1, 1, 1))
        kmu.append((n, True, 1, 1, False, (0, 2, 4)))
        if n < 4 or tier == 'thorough':
            kmu.append((n, True, 1, 1, True, (0, 2)))
        kppi.append((n, True, 1, 1, 2))
    for n in (2, 3):
        kmu.append((n, True, 2, 1, False, (0, 2)))
        kmu.append((n, True, 1, 2, False, ()))
        kppi.append((n, True, 2, 1, 1))
        kppi.append((n, True, 1, 2, 1))
    kmu.append((2, True, 1, 2, True, (0, 2, 4)))
    # multipole sets in other orders / without the monopole / repeated: every row is the Legendre-weighted mode mean of ITS pole
    kmu += [(3, True, 1, 1, False, (2, 0)), (2, True, 1, 1, False, (4, 2, 0)), (3, True, 1, 1, False, (2, 4)), (2, True, 2, 1, False, (2, 0, 4))]
    kmu += [(3, True, 1, 1, False, (0, 1, 2, 3, 4)), (2, True, 1, 1, False, (1, 3))]      # odd multipoles
    kppi.append((4, True, 1, 2, 1))
    if tier == 'thorough':
        for n in (5, 6):
            kmu += [(n, True, 1, 1, False, ()), (n, False, 1, 1, False, (0, 2)), (n, True, 1, 1, n == 5, (0, 2, 4))]
            kppi += [(n, True, 1, 1, 1), (n, False, 1, 1, 2), (n, True, 1, 2, 1)]
        kmu += [(3, True, 1, 2, True, (0, 2)), (4, True, 1, 2, False, (0, 2, 4)), (4, True, 2, 1, False, (0, 2)), (3, True, 3, 1, False, ()),
                (4, False, 2, 1, False, ()), (3, True, 1, 3, False, ()), (2, True, 3, 2, True, (0, 2, 4))]
        kppi += [(3, True, 1, 2, 2), (4, True, 2, 1, 1), (4, True, 1, 2, 2), (3, True, 3, 1, 2), (3, True, 1, 3, 1)]
    out = []
    out.append(dict(name='kmu/n=3/F=1/t=2/Nk=1/mu=0/poles=0-2/ambient=1', kind='kmu', n1d=3, Nk=1, mu_free=False, poles=(0, 2), fourier=True, nthread=2, k0=False, ambient=1))
    out.append(dict(name='kppi/n=3/F=1/t=2/Nk=1/Npi=1/ambient=1', kind='kppi', n1d=3, Nk=1, Npi=1, fourier=True, nthread=2, k0=False, ambient=1))
    for n, F, t, Nk, mu, poles in kmu:
        out.append(dict(name=f'kmu/n={n}/F={int(F)}/t={t}/Nk={Nk}/mu={int(mu)}/poles={"-".join(map(str, poles)) or "none"}', kind='kmu', n1d=n, Nk=Nk, mu_free=mu,
                        poles=poles, fourier=F, nthread=t, k0=False))
    for n, F, t, Nk, Npi in kppi:
        out.append(dict(name=f'kppi/n={n}/F={int(F)}/t={t}/Nk={Nk}/Npi={Npi}', kind='kppi', n1d=n, Nk=Nk, Npi=Npi, fourier=F, nthread=t, k0=False))
    return out


def run(item):
    if item['kind'] == 'kmu':
        return common.run_paths(lambda: body_kmu(item['n1d'], item['Nk'], item['mu_free'], tuple(item['poles']), item['fourier'],
                                                 item['nthread'], item['k0'], item.get('ambient')), cov_funcs=FUNCS, max_paths=50000)[0]
    return common.run_paths(lambda: body_kppi(item['n1d'], item['Nk'], item['Npi'], item['fourier'], item['nthread'], item['k0'], item.get('ambient')),
                            cov_funcs=FUNCS, max_paths=50000)[0]


def finding_key(e):
    case = e['info'].get('case', {})
    if e['kind'] == 'oob':
        return f"{case.get('kind')}:oob:{e['info'].get('site', '?').split(':')[1]}"
    if e['kind'] == 'race':
        return f"{case.get('kind')}:race"
    return e['key']


def validate(tier):
    """engine (concrete) vs compiled kernels on a concrete mesh with edges away from modes"""
    n = 0
    rng = real_np.random.default_rng(5)
    for n1d in (3, 4):
        kz = n1d // 2 + 1
        W = rng.random((n1d, n1d, kz))
        kedges = real_np.array([0.3, 1.2, 1.9])
        muedges = real_np.array([0.0, 0.55, 1.0])
        poles = real_np.array([0, 2, 4], dtype=real_np.int64)
        L = 2.0 * real_np.pi
        ref = ps.bin_kmu(n1d, L, kedges, muedges, W, poles=poles, dtype=real_np.float64, fourier=True, nthread=2)
        ref2 = ps.bin_kppi(n1d, L, kedges, 3.0, 2, W, dtype=real_np.float64, fourier=True, nthread=2)

        def body():
            rebind.NB.reset(1)
            a = R.bin_kmu(n1d, L, arrays.as_sarr(kedges), arrays.as_sarr(muedges), arrays.as_sarr(W), poles=arrays.as_sarr(poles),
                          dtype=arrays.T('f8'), fourier=True, nthread=1)
            b = R.bin_kppi(n1d, L, arrays.as_sarr(kedges), 3.0, 2, arrays.as_sarr(W), dtype=arrays.T('f8'), fourier=True, nthread=1)

            def conc(x):
                if isinstance(x, Sym):
                    x = z3.simplify(x.as_real())
                    if not (z3.is_rational_value(x) or z3.is_int_value(x)):
                        return float('nan')      # contains a symbolic square root: not compared
                    return float(common.fr(core._pyval(x)))
                return float(x)
            return [[conc(x) for x in common.cells(o)] for o in a + b]
        res = core.explore(body)
        assert len(res) == 1 and res[0].exc is None, (res[0].exc, res[0].events)
        for got, want in zip(res[0].ret, list(ref) + list(ref2)):
            # weighted_counts_k contains sqrt of non-squares: symbolic in the engine; compare the rest
            want = real_np.asarray(want, dtype=float).ravel()
            if len(got) == len(want) and all(g == g for g in got):
                assert real_np.allclose(got, want, rtol=1e-9, atol=1e-12), (n1d, got, want)
                n += 1
    return n


def replay(e, path):
    i = e['info'].get('case', {})
    m = e.get('model', {})
    body_ = f'''
os.environ['NUMBA_BOUNDSCHECK'] = '1'
from fractions import Fraction as F
import abacusnbody.analysis.power_spectrum as ps
m = {m!r}
case = {i!r}
ekind = {e['kind']!r}
n1d = case['n1d']; kz = n1d // 2 + 1
fourier = case['fourier']
L = 2 * np.pi if fourier else float(n1d)
Nk = case['Nk']
def fl(v): return float(F(v))
kedges = np.array([0.0 if (b == 0 and case['k0_zero']) else fl(m.get(f'kedges[{{b}}]', b)) for b in range(Nk + 1)])
W = np.array([[[fl(m.get(f'P[{{a}},{{b}},{{c}}]', 0)) for c in range(kz)] for b in range(n1d)] for a in range(n1d)], dtype=np.float64)
if not W.any():
    W = np.random.default_rng(1).random(W.shape)
fr = np.fft.fftfreq(n1d, 1.0 / n1d)
bad = []
def brute(xe, ye, xfun, yfun):
    cnt = np.zeros((len(xe) - 1, len(ye) - 1), dtype=np.int64); tot = np.zeros(cnt.shape)
    for a in range(n1d):
        for b in range(n1d):
            for c in range(n1d):
                fa, fb, fc = fr[a], fr[b], fr[c]
                cell = (a, b, int(abs(fc))) if (fc >= 0 or (n1d % 2 == 0 and c == n1d // 2)) else ((-a) % n1d, (-b) % n1d, int(-fc))
                x, y = xfun(fa, fb, fc), yfun(fa, fb, fc)
                ix, iy = np.searchsorted(xe, x) - 1, np.searchsorted(ye, y) - 1
                if 0 <= ix < len(xe) - 1 and 0 <= iy < len(ye) - 1 and xe[ix] < x < xe[ix + 1] and ((ye[iy] < y < ye[iy + 1]) or (y == 0 and iy == -1 + 1 and ye[0] == 0)):
                    cnt[ix, iy] += 1; tot[ix, iy] += W[cell]
                elif 0 <= ix < len(xe) - 1 and y == 0 and ye[0] == 0 and xe[ix] < x < xe[ix + 1]:
                    cnt[ix, 0] += 1; tot[ix, 0] += W[cell]
    return cnt, tot
for mode in ('py_func', 'compiled'):
    try:
        if case.get('ambient'):
            import numba
            numba.set_num_threads(min(case['ambient'], numba.config.NUMBA_NUM_THREADS))     # what an earlier call left in force
        if case['kind'] == 'kmu':
            mued = np.array([0.0, fl(m.get('muedges[1]', 0.5)), 1.0]) if case['mu_free'] else np.array([0.0, 1.0])
            f = ps.bin_kmu if mode == 'compiled' else ps.bin_kmu.py_func
            out = f(n1d, L, kedges, mued, W, poles=np.array(case['poles'], dtype=np.int64), dtype=np.float64, fourier=fourier, nthread=max(1, case['nthread']))
            wc, cnt = out[0], out[1]
            ecnt, etot = brute(kedges, mued, lambda a, b, c: np.sqrt(a * a + b * b + c * c), lambda a, b, c: (abs(c) / np.sqrt(a * a + b * b + c * c)) if (a or b or c) else 0.0)
            # multipoles: mean over ALL modes of the k bin of (2l+1) L_l(mu) x value, row ip belongs to poles[ip]
            leg = {{0: lambda u: 1.0, 2: lambda u: 5 * (1.5 * u * u - 0.5), 4: lambda u: 9 * (35 * u ** 4 - 30 * u * u + 3) / 8,
                   1: lambda u: 3 * u, 3: lambda u: 7 * (5 * u ** 3 - 3 * u) / 2, 5: lambda u: 11 * (63 * u ** 5 - 70 * u ** 3 + 15 * u) / 8}}
            kall = brute(kedges, np.array([0.0, 1.0]), lambda a, b, c: np.sqrt(a * a + b * b + c * c), lambda a, b, c: (abs(c) / np.sqrt(a * a + b * b + c * c)) if (a or b or c) else 0.0)[0][:, 0]
            for ip, l in enumerate(case['poles']):
                if l not in leg: continue
                WW = {{}}
                ptot = np.zeros(len(kedges) - 1)
                for a in range(n1d):
                    for b in range(n1d):
                        for c in range(n1d):
                            fa, fb, fc = fr[a], fr[b], fr[c]
                            kk = np.sqrt(fa * fa + fb * fb + fc * fc)
                            ix = np.searchsorted(kedges, kk) - 1
                            if not (0 <= ix < len(kedges) - 1 and kedges[ix] < kk < kedges[ix + 1]): continue
                            cell = (a, b, int(abs(fc))) if (fc >= 0 or (n1d % 2 == 0 and c == n1d // 2)) else ((-a) % n1d, (-b) % n1d, int(-fc))
                            ptot[ix] += W[cell] * leg[l](abs(fc) / kk if kk else 0.0)
                exp_p = np.divide(ptot, kall, out=np.zeros_like(ptot), where=kall > 0)
                if not np.allclose(np.asarray(out[2])[ip], exp_p, rtol=1e-6, atol=1e-9):
                    bad.append(f'{{mode}}: poles={{case["poles"]}}: row {{ip}} (l={{l}}) = {{np.asarray(out[2])[ip].tolist()}} expected {{exp_p.tolist()}}')
        else:
            pimax, Npi = fl(m.get('pimax', 1)), case['Npi']
            f = ps.bin_kppi if mode == 'compiled' else ps.bin_kppi.py_func
            wc, cnt = f(n1d, L, kedges, pimax, Npi, W, dtype=np.float64, fourier=fourier, nthread=max(1, case['nthread']))
            ecnt, etot = brute(kedges, np.linspace(0, pimax, Npi + 1), lambda a, b, c: np.sqrt(a * a + b * b), lambda a, b, c: abs(c))
        if not np.array_equal(cnt, ecnt):
            bad.append(f'{{mode}}: counts {{cnt.tolist()}} but the full {{n1d}}^3 mesh has {{ecnt.tolist()}} modes in these bins (edges {{kedges.tolist()}})')
        else:
            mean = np.divide(etot, ecnt, out=np.zeros_like(etot), where=ecnt > 0)
            if not np.allclose(wc, mean, rtol=1e-9, atol=1e-12):
                bad.append(f'{{mode}}: bin means {{wc.tolist()}} expected {{mean.tolist()}}')
    except IndexError as ex:
        bad.append(f'{{mode}} (NUMBA_BOUNDSCHECK=1): IndexError: {{ex}}')
    except SystemError as ex:
        bad.append(f'{{mode}} (NUMBA_BOUNDSCHECK=1): {{ex}} / {{ex.__cause__}}')
print('case', case, 'kedges', kedges.tolist(), 'pimax', m.get('pimax'))
for b in bad: print('  ', b)
sys.exit(1 if bad else 0)
'''
    return common.write_replay(path, body_, env={'NUMBA_BOUNDSCHECK': '1'})


if __name__ == '__main__':
    sys.exit(harness.main(__import__('checks.c08', fromlist=['x'])))
