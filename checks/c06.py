"""C06 -- TSC / CIC mass assignment conserves weight and applies the separable kernel.

One particle with free real position, weight and sub-cell offset is deposited by the real
_tsc_scatter / cic_serial py_func bodies onto an arbitrary symbolic pre-existing grid (so one
iteration of the particle loop is an inductive step); every cell of the result is proved equal
to the textbook periodic kernel sum, and the grid total to the particle weight."""
import sys
import itertools
import numpy as real_np
import z3
from checks import common
from checks.common import Sym, SArr, ctx, core, arrays, rebind, harness
import abacusnbody.analysis.tsc as tsc
import abacusnbody.analysis.cic as cic

ID = 'C06'
BOUNDS = {
    'quick': 'TSC grids (3,3,3) (3,4,5) (4,3,1) (3,3,1); CIC grids (3,3,3) (3,3,1) (4,3,1); one particle with free real '
             'x,y,z in [0,box] (inclusive), free weight (or None), free offset in [0, box/max(n)], arbitrary symbolic pre-grid; '
             '_wrap_inplace on x in [-box, 2box); tsc_parallel(nthread=1, wrap=True) wiring on (3,3,1) with box=1, x0 in [-box,2box)'
             '; also: wiring items (shared with C07): N=2 (npartition 2, nthread 1) and N=3 (n1d 7, npartition 2, nthread 2), sort on/off, weights on/off',
    'thorough': 'quick plus the wrap wiring along the other two axes (larger grids were measured at more than an hour of solver time per x-slab and are not registered; two-particle additivity follows from the per-particle obligations, since the kernels accumulate with += into the supplied grid, which is free in every item)',
}
OUTSIDE = 'float32/float64 rounding and fastmath (real model); grids with an axis of length < 3 other than the one-cell-thick ' \
          'third axis (TSC clouds are 3 cells wide; such grids are not claimed); offsets outside [0, one cell]; grid sizes ' \
          'above the bound (the kernel arithmetic is size-independent, only wrap indices change)'
STUBS = ['warnings.warn / timeit in tsc_parallel: real']
ASSUMPTIONS = ['floats are reals', 'box > 0', 'positions in [0, box] inclusive (box itself is what in-place wrapping can produce)',
               '0 <= offset <= box/max(grid shape)']
MUST_COVER = {'abacusnbody.analysis.tsc._tsc_scatter': 2,   # the two ndim==2 else-branches are dead: a 2-D array cannot take 3 indices
               'abacusnbody.analysis.tsc._rightwrap': 0,
              'abacusnbody.analysis.tsc._wrap_inplace': 0, 'abacusnbody.analysis.cic.cic_serial': 0}

RT = rebind.Rebound(tsc)
RC = rebind.Rebound(cic)
FUNCS = [tsc._tsc_scatter, tsc._rightwrap, tsc._wrap_inplace, tsc._tsc_parallel, tsc.tsc_parallel, tsc._zeros_parallel,
         cic.cic_serial, cic.rightwrap]


def sources():
    return rebind.source_hash(*FUNCS)


# ---- oracle: textbook kernels, periodic images summed explicitly ----------------------------

def zabs(d):
    return z3.If(d >= 0, d, -d)


def k_tsc(d):
    a = zabs(d)
    return z3.If(a <= z3.RealVal('1/2'), z3.RealVal('3/4') - d * d,
                 z3.If(a <= z3.RealVal('3/2'), (z3.RealVal('3/2') - a) * (z3.RealVal('3/2') - a) / 2, z3.RealVal(0)))


def k_cic(d):
    a = zabs(d)
    return z3.If(a <= 1, 1 - a, z3.RealVal(0))


def resolved(kind, o, t):
    """Kernel value at cell k+o for a particle at grid coordinate k+t, |t| <= 1/2, with the
    piecewise definition resolved.  Item 'support' proves, for all real t in [-1/2, 1/2], that
    these closed forms equal the textbook kernels k_tsc / k_cic at t-o (and that the kernels
    vanish at every other integer offset), so using them here is using the textbook kernel."""
    if kind == 'tsc':
        h = z3.RealVal('1/2')
        return {0: z3.RealVal('3/4') - t * t, 1: h * (h + t) * (h + t), -1: h * (h - t) * (h - t)}[o]
    return {0: 1 - zabs(t), 1: z3.If(t >= 0, t, z3.RealVal(0)), -1: z3.If(t <= 0, -t, z3.RealVal(0))}[o]


def axis_weights(c, kind, p, n, k):
    """Periodic kernel sum for each cell a of an axis of length n, for a particle at grid
    coordinate p whose nearest cell on this path is k (|p-k| <= 1/2, read from the code's own
    round()): sum_m K(p - a - m n) = sum_{o in -1,0,1, (k+o) mod n == a} K(p - (k+o))."""
    out = [z3.RealVal(0)] * n
    for o in (-1, 0, 1):
        a = (k + o) % n
        out[a] = out[a] + resolved(kind, o, p - k)
    return out


def nearest_cells(c, n_particles):
    """The integer cells chosen by the code's round() calls on this path (3 per particle), and
    a generalisation map: the code's own grid-coordinate terms p = (x+offset)*n/box are replaced
    by fresh variables in the deciding queries (the round() constraints |p-k| <= 1/2 are all
    that is needed about them), which keeps the queries polynomial in p instead of nonlinear in
    (x, offset, 1/box)."""
    rounds = c.extra.get('rounds', [])
    ks = []
    for n, (x, r) in enumerate(rounds):
        ks.append(c.concretize(core.lift(r).as_int(), what='nearest cell'))
    c.extra['gen'] = 'drop-defs'
    return ks


def same_term(c, p, n):
    """The oracle's grid coordinate p (written independently from x, offset, n, box) is first
    proved equal to the argument the code passed to round(); the oracle then uses that very
    term, so that the generalisation in nearest_cells() applies to both sides."""
    code_p = core.lift(c.extra['rounds'][n][0]).as_real()
    if not c.prove(code_p == p, 'grid coordinate passed to round() is (x+offset)*n/box', key='coord'):
        raise core.StopPath()
    return code_p


def body_support():
    """K vanishes outside {k-1,k,k+1} when |p-k| <= 1/2: justifies the 3-image oracle."""
    c = ctx()
    c.extra['case'] = dict(kind='support')
    c.extra['sample'] = c.extra['case']
    p = c.input('p', z3.RealSort())
    k = c.input('k', z3.IntSort())
    j = c.input('j', z3.IntSort())
    near = z3.And(p - z3.ToReal(k) <= z3.RealVal('1/2'), z3.ToReal(k) - p <= z3.RealVal('1/2'))
    far = z3.Or(j - k >= 2, k - j >= 2)
    c.prove(z3.Implies(z3.And(near, far), k_tsc(p - z3.ToReal(j)) == 0), 'TSC kernel vanishes beyond the 3 nearest cells', key='support:tsc')
    c.prove(z3.Implies(z3.And(near, far), k_cic(p - z3.ToReal(j)) == 0), 'CIC kernel vanishes beyond the 3 nearest cells', key='support:cic')
    tot = lambda K: K(p - z3.ToReal(k - 1)) + K(p - z3.ToReal(k)) + K(p - z3.ToReal(k + 1))
    c.prove(z3.Implies(near, z3.And(tot(k_tsc) == 1, tot(k_cic) == 1)), 'kernel weights sum to one', key='support:unity')
    t = p - z3.ToReal(k)
    for kind, K in (('tsc', k_tsc), ('cic', k_cic)):
        for o in (-1, 0, 1):
            c.prove(z3.Implies(near, K(t - o) == resolved(kind, o, t)),
                    f'{kind} kernel at offset {o} from the nearest cell equals its closed form on |t| <= 1/2', key=f'support:{kind}:{o}')


def setup_particles(c, N, box, shape, with_w, lo_mult=0, hi_mult=1):
    pos = common.sym_array('pos', (N, 3), 'f4')
    for v in common.cells(pos):
        c.assume(z3.And(v.e >= lo_mult * box.e, v.e <= hi_mult * box.e) if hi_mult == 1 else
                 z3.And(v.e >= lo_mult * box.e, v.e < hi_mult * box.e))
    w = common.sym_array('w', (N,), 'f4') if with_w else None
    return pos, w


def factor_lemmas(c, axes, key):
    """Conservation and non-negativity, decided on the factors: every cell has just been proved
    equal to G0 + W * Ax[a] * Ay[b] * Az[d]; the solver proves sum_a A[a] == 1 and A[a] >= 0 for
    each axis of each particle on this path.  The grid total (product of the three unit sums
    times W) and the sign of each deposit (product of non-negative factors times W) follow by
    distributivity -- the one algebraic step done outside the solver, because z3 does not
    finish the expanded degree-6 sum (probe: 90 s timeout) while the factors take ms."""
    gen = c.extra.get('gen')
    for A in axes:
        tot = z3.RealVal(0)
        for a in A:
            tot = tot + a
        c.prove(tot == 1, 'per-axis kernel weights sum to 1 (=> the grid total increases by exactly the weight)',
                key=key + ':conserve', generalize=gen)
        c.prove(z3.And([a >= 0 for a in A]), 'per-axis kernel weights are non-negative (=> deposits are, for W >= 0)',
                key=key + ':nonneg', generalize=gen)


def prove_cells(c, dens, G0, expect, key, what):
    ok = True
    tot_got, tot_exp = z3.RealVal(0), z3.RealVal(0)
    for idx in real_np.ndindex(*dens.shape):
        got = core.lift(common.cell(dens, *idx)).as_real()
        ok = c.prove(got == G0[idx] + expect[idx], what, key=key + ':kernel', generalize=c.extra.get('gen')) and ok
        tot_got = tot_got + got - G0[idx]
    return ok, tot_got


def body_scatter(kind, shape, with_w, N=1, slab=None):
    c = ctx()
    case = dict(kind=kind, shape=list(shape), weights=with_w, N=N, slab=slab)
    c.extra['case'] = case
    c.extra['keyprefix'] = f'{kind}:'
    c.extra['name_products'] = True
    if N == 1:
        box = Sym(c.input('box', z3.RealSort()))
        c.assume(box.e > 0)
    else:
        box = Sym(z3.RealVal(1))     # two-particle items: box = 1 keeps the grid coordinates linear (stated bound)
    pos, w = setup_particles(c, N, box, shape, with_w)
    if slab is not None:
        # domain split for parallelism: x of the last particle in [(slab-1/2), (slab+1/2)] cells (closed);
        # the slabs 0..n cover [0, box]
        v = common.cell(pos, N - 1, 0).e
        c.assume(z3.And(2 * v * shape[0] >= (2 * slab - 1) * box.e, 2 * v * shape[0] <= (2 * slab + 1) * box.e))
    if N == 2:
        # first particle confined to the interior of cell (1,1,.) [one path]; second one free
        for j in range(3):
            v = common.cell(pos, 0, j).e
            c.assume(z3.And(v * shape[j] * 10 >= 6 * box.e, v * shape[j] * 10 <= 7 * box.e))
    dens = common.sym_array('G0', shape, 'f4')
    G0 = {idx: common.cell(dens, *idx).e for idx in real_np.ndindex(*shape)}
    if kind == 'tsc':
        off = Sym(c.input('offset', z3.RealSort()))
        c.assume(z3.And(off.e >= 0, off.e * max(shape) <= box.e))
        RT._tsc_scatter(pos, dens, box, weights=w, offset=off)
        kern, reach = k_tsc, 1
    else:
        off = Sym(z3.RealVal(0))
        RC.cic_serial(pos, dens, box, weights=w)
        kern, reach = k_cic, 0
    c.extra['sample'] = dict(case, path_decisions=len(c.taken))
    expect = {idx: z3.RealVal(0) for idx in G0}
    wsum = z3.RealVal(0)
    allax = []
    ks = nearest_cells(c, N)
    # on a one-cell-thick grid the code may skip the z axis entirely (no round() for z): the
    # oracle is the same either way -- all of the z weight belongs to the single cell
    per = len(ks) // N if N else 3
    thin = shape[2] == 1 and per == 2
    if len(ks) != per * N or per not in (2, 3) or (per == 2 and shape[2] != 1):
        raise core.ModelGap(f'unexpected number of round() calls: {len(ks)} for {N} particles on grid {shape}')
    for n in range(N):
        W = common.cell(w, n).e if with_w else z3.RealVal(1)
        wsum = wsum + W
        ax = []
        for j in range(3):
            p = core.rdiv((common.cell(pos, n, j).e + off.e) * shape[j], box.e)
            if not (j == 2 and thin):
                p = same_term(c, p, per * n + j)
            if j == 2 and thin:
                ax.append([z3.RealVal(1)])   # one-cell-thick axis: all weight in the single cell
            else:
                ax.append(axis_weights(c, kind, p, shape[j], ks[per * n + j]))
        allax += ax
        for idx in G0:
            expect[idx] = expect[idx] + W * ax[0][idx[0]] * ax[1][idx[1]] * ax[2][idx[2]]
    ok, tot = prove_cells(c, dens, G0, expect, kind, f'{kind.upper()} deposit equals weight x separable periodic kernel, added to the existing grid')
    factor_lemmas(c, allax, kind)


def body_wrap():
    c = ctx()
    c.extra['case'] = dict(kind='wrap')
    c.extra['keyprefix'] = 'wrap:'
    c.extra['sample'] = c.extra['case']
    box = Sym(c.input('box', z3.RealSort()))
    c.assume(box.e > 0)
    pos, _ = setup_particles(c, 2, box, None, False, lo_mult=-1, hi_mult=2)
    x0 = [v.e for v in common.cells(pos)]
    RT._wrap_inplace(pos, box)
    conds = []
    for v, o in zip(common.cells(pos), x0):
        g = core.lift(v).as_real()
        conds.append(z3.And(g >= 0, g < box.e, z3.Or(g == o, g == o - box.e, g == o + box.e)))
    c.prove(z3.And(conds), 'in-place wrap maps [-box, 2box) into [0, box) by a whole box', key='wrap:range')


def body_wrapper(shape, axes=(0, 1, 2)):
    """tsc_parallel with nthread=1 (serial path): grid allocation, wrap, single stripe."""
    c = ctx()
    case = dict(kind='wrapper', shape=list(shape))
    c.extra['case'] = case
    c.extra['keyprefix'] = 'wrapper:'
    c.extra['name_products'] = True
    c.extra['sample'] = case
    box = Sym(z3.RealVal(1))         # wiring item: box = 1 (stated bound); the kernel items carry the free box
    pos, w = setup_particles(c, 1, box, shape, True, lo_mult=-1, hi_mult=2)
    x0 = [v.e for v in common.cells(pos)]
    for j in range(3):
        if j not in axes:       # out-of-range (to be wrapped) only along the listed axes
            c.assume(z3.And(x0[j] >= 0, x0[j] < box.e))
    off = Sym(c.input('offset', z3.RealSort()))
    c.assume(z3.And(off.e >= 0, off.e * max(shape) <= box.e))
    rebind.NB.reset(4)
    dens = RT.tsc_parallel(pos, tuple(shape), box, weights=w, nthread=1, wrap=True, offset=off)
    if tuple(dens.shape) != tuple(shape):
        c.report('violation', f'allocated grid has shape {dens.shape}', key='wrapper:shape')
        return
    W = common.cell(w, 0).e
    ax = []
    ks = nearest_cells(c, 1)
    for j in range(3):
        if j >= len(ks):
            ax.append([z3.RealVal(1)])
            continue
        xw = z3.If(x0[j] >= box.e, x0[j] - box.e, z3.If(x0[j] < 0, x0[j] + box.e, x0[j]))
        p = same_term(c, core.rdiv((xw + off.e) * shape[j], box.e), j)
        ax.append(axis_weights(c, 'tsc', p, shape[j], ks[j]))
    G0 = {idx: z3.RealVal(0) for idx in real_np.ndindex(*shape)}
    expect = {idx: W * ax[0][idx[0]] * ax[1][idx[1]] * ax[2][idx[2]] for idx in G0}
    ok, tot = prove_cells(c, dens, G0, expect, 'wrapper', 'tsc_parallel(nthread=1, wrap=True) = kernel deposit of the wrapped position on a zeroed grid')
    factor_lemmas(c, ax, 'wrapper')


def items(tier, seed):
    out = []
    tg = [(3, 3, 3), (3, 4, 5), (4, 3, 1), (3, 3, 1)]
    cg = [(3, 3, 3), (3, 3, 1), (4, 3, 1)]
    if tier == 'thorough':
        # measured: one x-slab of TSC (4,4,4) or CIC (4,4,4) needs more than an hour of solver time, (5,5,5)/(6,6,6) several, and so do the
        # two-particle items; a run with TSC (5,4,1), CIC (3,4,5), (4,4,1) took 31 min and left queries undecided under load.  None of these
        # is registered: the thorough tier is the quick tier plus the wrap wiring along the other two axes.
        pass
    for kind, grids in (('tsc', tg), ('cic', cg)):
        for g in grids:
            for ww in (True, False):
                if not ww and (g not in ((3, 3, 3), (3, 3, 1)) or (tier == 'quick' and kind == 'cic' and g == (3, 3, 3))):
                    continue
                npaths = (g[0] + 2) * (g[1] + 2) * (g[2] + 2 if g[2] > 1 else 1) * (1 if kind == 'tsc' else 4)
                slabs = list(range(g[0] + 1)) if npaths > 150 else [None]
                for sl in slabs:
                    out.append(dict(name=f'{kind}/{"x".join(map(str, g))}/w={ww}' + (f'/xslab={sl}' if sl is not None else ''),
                                    kind=kind, shape=g, w=ww, N=1, slab=sl))
    out.append(dict(name='wrap', kind='wrap'))
    # thread / partition settings: with a multi-stripe partition (and the in-stripe sort) the kernel must still be handed
    # every particle once, with its own weight (the obligation is shared with C07, where it is defined)
    out.append(dict(name='wiring/N=2/n1d=4/npartition=2/nthread=1', kind='wiring', N=2, n1d=4, npart=2, nthread=1))
    out.append(dict(name='wiring/N=3/n1d=7/npartition=2/nthread=2', kind='wiring', N=3, n1d=7, npart=2, nthread=2))
    out.append(dict(name='support', kind='support'))
    out.append(dict(name='wrapper/3x3x1/axis0', kind='wrapper', shape=(3, 3, 1), axes=[0]))
    if tier == 'thorough':
        out.append(dict(name='wrapper/3x3x1/axis1', kind='wrapper', shape=(3, 3, 1), axes=[1]))
        out.append(dict(name='wrapper/3x3x1/axis2', kind='wrapper', shape=(3, 3, 1), axes=[2]))
    return out


def run(item):
    k = item['kind']
    if k in ('tsc', 'cic'):
        return common.run_paths(lambda: body_scatter(k, tuple(item['shape']), item['w'], item['N'], item.get('slab')), cov_funcs=FUNCS, max_paths=60000)[0]
    if k == 'wiring':
        from checks import c07
        return c07.run(item)
    if k == 'wrap':
        return common.run_paths(body_wrap, cov_funcs=FUNCS)[0]
    if k == 'support':
        return common.run_paths(body_support, cov_funcs=FUNCS)[0]
    return common.run_paths(lambda: body_wrapper(tuple(item['shape']), item.get('axes', [0, 1, 2])), cov_funcs=FUNCS)[0]


def finding_key(e):
    if e['kind'] == 'oob':
        case = e['info'].get('case', {})
        shp = case.get('shape', [])
        thin = len(shp) == 3 and shp[2] == 1
        return f"{case.get('kind')}:oob:{'thin-grid' if thin else 'grid'}:{e['info'].get('site', '?').split(':')[1]}"
    return e['key']


def validate(tier):
    """engine (concrete floats) vs compiled kernels on the repo's test-style inputs."""
    n = 0
    rng = real_np.random.default_rng(3)
    for shape in ((4, 4, 4), (3, 4, 5), (4, 4, 1)):
        box = 123.0
        pos = (rng.random((5, 3)) * box).astype(real_np.float64)
        pos[0] = [0.0, box / 2, box * (1 - 1e-9)]
        pos[1] = [box / 8, box / 8 * 3, 0.0]      # cell centres / edges
        if shape[2] == 1:
            pos[:, 2] *= 0.4   # translator validation only: stay clear of the thin-grid defect checked below
        w = rng.random(5)
        for kind in ('tsc', 'cic'):
            d = real_np.zeros(shape, dtype=real_np.float64)
            if kind == 'tsc':
                tsc._tsc_scatter(pos, d, box, weights=w, offset=0.0)
            else:
                if shape[2] == 1 and False:
                    continue
                cic.cic_serial(pos, d, box, weights=w)

            def body():
                sp, sw = arrays.as_sarr(pos), arrays.as_sarr(w)
                sd = arrays.as_sarr(real_np.zeros(shape))
                if kind == 'tsc':
                    RT._tsc_scatter(sp, sd, box, weights=sw, offset=0.0)
                else:
                    RC.cic_serial(sp, sd, box, weights=sw)
                return [float(x) for x in common.cells(sd)]
            res = core.explore(body)
            assert len(res) == 1 and res[0].exc is None, (kind, shape, res[0].exc, res[0].events)
            assert real_np.allclose(res[0].ret, d.ravel(), rtol=1e-9, atol=1e-12), (kind, shape)
            n += 1
    return n


def replay(e, path):
    i = e['info'].get('case', {})
    m = e.get('model', {})
    if i.get('kind') == 'wiring':
        from checks import c07
        return c07.replay(e, path)
    body = f'''
os.environ['NUMBA_BOUNDSCHECK'] = '1'
from fractions import Fraction as F
import abacusnbody.analysis.tsc as tsc
import abacusnbody.analysis.cic as cic
m = {m!r}
case = {i!r}
ekind = {e['kind']!r}
bad = []
box = float(F(m.get('box', 1)))
off = float(F(m.get('offset', 0)))

def K_tsc(d):
    a = abs(d)
    return 0.75 - d * d if a <= 0.5 else 0.5 * (1.5 - a) ** 2 if a <= 1.5 else 0.0

def K_cic(d):
    return max(0.0, 1 - abs(d))

def oracle(kind, shape, pos, w, off):
    K = K_tsc if kind != 'cic' else K_cic
    g = np.zeros(shape)
    for n in range(len(pos)):
        ax = []
        for j in range(3):
            p = (pos[n, j] + off) * shape[j] / box
            ax.append([1.0] if (shape[j] == 1 and j == 2) else [sum(K(p - a - mm * shape[j]) for mm in range(-6, 7)) for a in range(shape[j])])
        g += w[n] * np.einsum('i,j,k->ijk', ax[0], ax[1], ax[2])
    return g

kind = case.get('kind')
if kind == 'wrap':
    pos = np.array([[float(F(m.get(f'pos[{{i}},{{j}}]', 0))) for j in range(3)] for i in range(2)])
    p0 = pos.copy()
    tsc._wrap_inplace(pos, box)
    if not ((pos >= 0).all() and (pos < box).all() and np.allclose((pos - p0) / box, np.round((pos - p0) / box))):
        bad.append(f'wrap {{p0.tolist()}} -> {{pos.tolist()}}')
else:
    shape = tuple(case['shape'])
    N = case.get('N', 1)
    pos = np.array([[float(F(m.get(f'pos[{{i}},{{j}}]', 0))) for j in range(3)] for i in range(N)], dtype=np.float64)
    w = np.array([float(F(m.get(f'w[{{i}}]', 1))) for i in range(N)], dtype=np.float64)
    if not w.any(): w[:] = 1.0      # a witness about WHERE the kernel is centred is only observable with a non-zero weight
    G0 = np.zeros(shape, dtype=np.float64)
    for idx in np.ndindex(*shape):
        G0[idx] = float(F(m.get('G0[' + ','.join(map(str, idx)) + ']', 0)))
    have_w = case.get('weights', True)
    wexp = w if have_w else np.ones(N)
    for mode in ('py_func', 'compiled'):
        d = G0.copy()
        try:
            if kind == 'wrapper':
                import warnings; warnings.simplefilter('ignore')
                f = tsc.tsc_parallel
                pp = pos.copy()
                d = f(pp, shape, box, weights=w, nthread=1, wrap=True, offset=off) if mode == 'compiled' else None
                if d is None: continue
                exp = oracle('tsc', shape, np.mod(pos, box), w, off)
            elif kind == 'tsc':
                f = tsc._tsc_scatter if mode == 'compiled' else tsc._tsc_scatter.py_func
                f(pos, d, box, weights=w if have_w else None, offset=off)
                exp = G0 + oracle('tsc', shape, pos, wexp, off)
            else:
                f = cic.cic_serial if mode == 'compiled' else cic.cic_serial.py_func
                f(pos, d, box, weights=w if have_w else None)
                exp = G0 + oracle('cic', shape, pos, wexp, 0.0)
            scale = max(1.0, np.abs(exp).max(), np.abs(wexp).max())
            if not np.allclose(d, exp, rtol=1e-6, atol=1e-6 * scale):
                bad.append(f'{{mode}}: grid differs from the kernel oracle: total {{d.sum() - G0.sum()}} vs weight {{wexp.sum()}}; max |diff| {{np.abs(d - exp).max()}}')
        except (IndexError, SystemError) as ex:
            bad.append(f'{{mode}} (NUMBA_BOUNDSCHECK=1): {{type(ex).__name__}}: {{ex}} / {{ex.__cause__}}')
print('case', case, 'box', box, 'offset', off, 'pos', [m.get(k) for k in sorted(m) if k.startswith('pos')])
for b in bad: print('  ', b)
sys.exit(1 if bad else 0)
'''
    return common.write_replay(path, body, env={'NUMBA_BOUNDSCHECK': '1'})


if __name__ == '__main__':
    sys.exit(harness.main(__import__('checks.c06', fromlist=['x'])))
