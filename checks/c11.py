"""C11 -- compiled kernels never access memory outside their arrays.

The engine's out-of-bounds monitor (numba semantics: a negative index wraps, nothing else is
checked at run time; every symbolic index is checked by the solver under the path condition)
is on in every harness of every property.  This check is the union of boundary-size runs of
those harnesses -- empty arrays, single elements, zero-particle halos, one-cell-thick grids,
positions on the domain boundary, wavenumbers beyond the last edge, more threads than
elements, odd/even partition counts -- plus dedicated harnesses for the kernels that no other
property exercises (interpolation, smoothing, field normalisation, interlacing shift)."""
import sys
import numpy as real_np
import z3
from checks import common
common.fake_modules()
from checks.common import Sym, SArr, ctx, core, arrays, rebind, harness
import abacusnbody.analysis.power_spectrum as ps
import abacusnbody.analysis.tsc as tsc

ID = 'C11'
BOUNDS = {
    'quick': 'per kernel family, the boundary sizes named in the property: cumsum N in 0..2; bit decoders N in 0..1; pack9 streams of 0..2 records; '
             'subsample zippers with 0..2 halos incl. zero-particle and cleaned-away halos (symbolic layout); TSC/CIC one particle on (3,3,3) and '
             'the thin grids (3,3,1), (4,3,1) with positions in [0,box] inclusive; _zeros_parallel, _wrap_inplace with 0..2 particles; '
             '_tsc_parallel with 1..5 stripes (odd and even); partition_parallel with N in 0..2 and more threads than particles; bin_kmu/bin_kppi on '
             'n1d in {2,3} with free edges (modes beyond the last edge) and 2 threads; linear_interp with a free abscissa; expand_poles_to_3d, '
             'get_smoothing, get_delta_mu2, normalize_field, shift_field_fft, _normalize on n1d in {2,3}; HOD passes with 0..2 hosts and up to 5 threads; '
             'fast_concatenate N1,N2 in 0..3; _searchsorted_parallel sizes 0..2'
             '; also: bin_kmu/bin_kppi additionally with ambient numba thread count 1',
    'thorough': 'quick plus the thorough boundary sizes of the contributing harnesses (n1d up to 4, 3 halos, 3 hosts)',
}
OUTSIDE = 'kernels not named in the property (zcv, shear, prepare_sim, _compute_ngal_*, the NFW path); sizes above the bound; slice bounds (numba clips ' \
          'slices like Python, they cannot address memory outside the array)'
STUBS = ['see the contributing properties (C19, C04, C15, C01, C06, C17, C07, C08, C09/C10)']
ASSUMPTIONS = ['each kernel\'s documented precondition only: positions in [0, box] inclusive, increasing bin edges with mu edges ending at 1, sorted ids, '
               'particle ranges inside their files, grids with at least 3 cells per axis (third axis may be 1 cell)']
FUNCS = [ps.linear_interp, ps.expand_poles_to_3d, ps.get_smoothing, ps.get_delta_mu2, ps.normalize_field, ps.shift_field_fft, ps._normalize,
         ps.factorial, ps.n_choose_k, tsc._zeros_parallel, tsc._wrap_inplace, tsc._tsc_parallel]
MUST_COVER = {'abacusnbody.analysis.power_spectrum.linear_interp': 0, 'abacusnbody.analysis.power_spectrum.expand_poles_to_3d': 1,
              'abacusnbody.analysis.power_spectrum.get_smoothing': 0, 'abacusnbody.analysis.power_spectrum.get_delta_mu2': 0,
              'abacusnbody.analysis.power_spectrum.shift_field_fft': 0, 'abacusnbody.analysis.power_spectrum._normalize': 0,
              'abacusnbody.analysis.tsc._tsc_parallel': 0, 'abacusnbody.analysis.tsc._zeros_parallel': 0}

RP = rebind.Rebound(ps)
RT = rebind.Rebound(tsc)


def sources():
    from checks import c19, c04, c15, c06, c17, c08, hodlib, catlib
    fs = FUNCS + c19.FUNCS + c04.FUNCS + c15.FUNCS + c06.FUNCS + c17.FUNCS + c08.FUNCS + hodlib.FUNCS + catlib.FUNCS[-4:]
    return rebind.source_hash(*fs)


def done(c, what):
    c.prove(z3.BoolVal(True), f'{what}: path completed with the bounds monitor silent', key='oob-free')


# ---- dedicated harnesses ---------------------------------------------------------------------

def body_interp(n):
    c = ctx()
    c.extra['case'] = dict(kind='linear_interp', n=n)
    c.extra['keyprefix'] = 'linear_interp:'
    c.extra['sample'] = c.extra['case']
    x = arrays.as_sarr(real_np.arange(n, dtype=float) * 0.5 + 1.0)
    y = common.sym_array('y', (n,), 'f8')
    xd = Sym(c.input('xd', z3.RealSort()))
    r = RP.linear_interp(xd, x, y)
    # value: piecewise linear between the neighbouring nodes, clamped outside
    x0, x1 = 1.0, 1.0 + 0.5 * (n - 1)
    conds = [z3.Implies(xd.e <= z3.RealVal(str(x0)), core._b(core.lift(r) == common.cell(y, 0))),
             z3.Implies(xd.e >= z3.RealVal(str(x1)), core._b(core.lift(r) == common.cell(y, n - 1)))]
    c.prove(z3.And(conds), 'linear_interp clamps to the end values outside the table', key='linear_interp:clamp')
    done(c, 'linear_interp')


def body_mesh(kind, n1d):
    c = ctx()
    c.extra['case'] = dict(kind=kind, n1d=n1d)
    c.extra['keyprefix'] = kind + ':'
    c.extra['sample'] = c.extra['case']
    c.log_access = True
    rebind.NB.reset(2)
    kz = n1d // 2 + 1
    L = 2.0 * real_np.pi
    if kind == 'expand_poles_to_3d':
        k_ell = arrays.as_sarr(real_np.array([0.5, 1.0, 1.5]))          # modes below the first and above the last node exist
        P = common.sym_array('P_ell', (2, 3), 'f4')
        out = RP.expand_poles_to_3d(k_ell, P, n1d, L, arrays.as_sarr(real_np.array([0, 2], dtype=real_np.int64)))
        c.prove(z3.BoolVal(out.shape == (n1d, n1d, kz) and not any(x is arrays.UNINIT for x in common.cells(out))), 'output mesh fully written', key=kind + ':shape')
    elif kind == 'get_smoothing':
        out = RP.get_smoothing(n1d, L, 0.7)
        c.prove(z3.BoolVal(out.shape == (n1d, n1d, kz)), 'output mesh shape', key=kind + ':shape')
    elif kind == 'get_delta_mu2':
        d = common.sym_array('delta', (n1d, n1d, kz), 'f4')
        out = RP.get_delta_mu2(d, n1d)
        c.prove(z3.BoolVal(out.shape == (n1d, n1d, kz)), 'output mesh shape', key=kind + ':shape')
    elif kind == 'normalize_field':
        for inplace in (True, False):
            f = common.sym_array(f'field{int(inplace)}', (n1d, n1d, n1d), 'f4')
            tw = Sym(c.input('tot', z3.RealSort()))
            c.assume(tw.e > 0)
            out = RP.normalize_field(f, tot_weight=tw, inplace=inplace, nthread=2)
            c.prove(z3.BoolVal(out.shape == (n1d, n1d, n1d)), 'output mesh shape', key=kind + ':shape')
    elif kind == 'shift_field_fft':
        a = SArr((n1d, n1d, kz), 'c8', fill=None)
        b = SArr((n1d, n1d, kz), 'c8', fill=None)
        for idx in real_np.ndindex(n1d, n1d, kz):
            nm = ','.join(map(str, idx))
            real_np.ndarray.__setitem__(a, idx, core.Cplx(Sym(c.input(f'a.re[{nm}]', z3.RealSort())), Sym(c.input(f'a.im[{nm}]', z3.RealSort()))))
            real_np.ndarray.__setitem__(b, idx, core.Cplx(Sym(c.input(f'b.re[{nm}]', z3.RealSort())), Sym(c.input(f'b.im[{nm}]', z3.RealSort()))))
        RP.shift_field_fft(a, b, n1d, L, 0.5 * L / n1d)
    elif kind == '_normalize':
        f = common.sym_array('field', (n1d, n1d, kz), 'f4')
        RP._normalize(f, Sym(c.input('a', z3.RealSort())), nthread=2)
    done(c, kind)


def body_factorial():
    c = ctx()
    c.extra['case'] = dict(kind='factorial')
    c.extra['keyprefix'] = 'factorial:'
    c.extra['sample'] = c.extra['case']
    n = Sym(c.input('n', z3.IntSort()))
    c.assume(z3.And(n.e >= -3, n.e <= 24))
    try:
        v = RP.factorial(n)
        ok = True
    except ValueError:
        ok = not c.feasible(z3.And(n.e >= 0, n.e <= 20))
    c.prove(z3.BoolVal(ok), 'factorial indexes its table only for 0 <= n <= 20 and raises otherwise', key='factorial:range')
    done(c, 'factorial')


def body_tsc_misc(N):
    c = ctx()
    c.extra['case'] = dict(kind='tsc_misc', N=N)
    c.extra['keyprefix'] = 'tsc_misc:'
    c.extra['sample'] = c.extra['case']
    c.log_access = True
    rebind.NB.reset(4)
    box = Sym(c.input('box', z3.RealSort()))
    c.assume(box.e > 0)
    pos = common.sym_array('pos', (N, 3), 'f4')
    RT._wrap_inplace(pos, box)
    for shape in ((0, 2, 2), (1, 1, 1), (3, 2, 1)):
        g = RT._zeros_parallel(shape)
        c.prove(z3.BoolVal(g.shape == shape and all(x == 0.0 for x in common.cells(g))), '_zeros_parallel returns a zeroed grid of the requested shape', key='tsc_misc:zeros')
    done(c, '_wrap_inplace/_zeros_parallel')


def body_tsc_parallel(npart, with_w):
    """_tsc_parallel for odd and even stripe counts; stripes hold 0 or 1 particle placed at a cell centre."""
    c = ctx()
    c.extra['case'] = dict(kind='schedule', npartition=npart, weights=with_w)
    c.extra['keyprefix'] = 'tsc_parallel:'
    c.extra['sample'] = c.extra['case']
    rebind.NB.reset(4)
    N = npart
    pp = arrays.as_sarr(real_np.full((N, 3), 0.5))
    w = common.sym_array('w', (N,), 'f4') if with_w else None
    starts = arrays.as_sarr(real_np.arange(0, N + 1, dtype=real_np.int64))
    dens = SArr((3, 3, 3), 'f4', fill=0.0)
    RT._tsc_parallel(pp, starts, dens, 3.0, w, 0.0)
    done(c, '_tsc_parallel')


# ---- items -----------------------------------------------------------------------------------

def items(tier, seed):
    T = tier == 'thorough'
    out = []
    add = lambda name, **kw: out.append(dict(name=name, **kw))
    for n in (2, 3, 4):
        add(f'linear_interp/n={n}', fam='interp', n=n)
    for kind in ('expand_poles_to_3d', 'get_smoothing', 'get_delta_mu2', 'normalize_field', 'shift_field_fft', '_normalize'):
        for n1d in ((2, 3, 4) if T else (2, 3)):
            add(f'{kind}/n1d={n1d}', fam='mesh', kind=kind, n1d=n1d)
    add('factorial', fam='factorial')
    for N in (0, 1, 2):
        add(f'tsc_misc/N={N}', fam='tsc_misc', N=N)
    for npart in range(1, 6):
        add(f'_tsc_parallel/npartition={npart}', fam='tsc_parallel', npart=npart)
    # boundary runs of the other properties' harnesses
    for N in (0, 1, 2):
        add(f'cumsum/N={N}', fam='c19', N=N)
    for N in (0, 1):
        add(f'bitpacked/N={N}', fam='c04', N=N)
    for M in (0, 1, 2):
        add(f'pack9/M={M}', fam='c15', M=M)
    for cleaned in (False, True):
        for mode in ('posvel', 'pid'):
            for nh in (0, 1, 2):
                add(f'zipper/cleaned={int(cleaned)}/{mode}/halos={nh}', fam='c01', cleaned=cleaned, mode=mode, nh=nh)
    for kind, shape in (('tsc', (3, 3, 3)), ('tsc', (3, 3, 1)), ('tsc', (4, 3, 1)), ('cic', (3, 3, 1)), ('cic', (4, 3, 1))):
        add(f'{kind}/{"x".join(map(str, shape))}', fam='c06', kind=kind, shape=shape)
    for N, nt in ((0, 1), (0, 3), (1, 5), (2, 3)):
        add(f'partition/N={N}/nthread={nt}', fam='c17', N=N, nt=nt)
    for n1d in ((2, 3, 4) if T else (2, 3)):
        add(f'bin_kmu/n1d={n1d}', fam='c08', which='kmu', n1d=n1d)
        add(f'bin_kppi/n1d={n1d}', fam='c08', which='kppi', n1d=n1d)
    for H, P, nt in ((0, 0, 1), (0, 0, 4), (1, 0, 5), (1, 1, 3), (2, 1, 2)) + (((3, 0, 5),) if T else ()):
        add(f'hod/H={H}/P={P}/Nthread={nt}', fam='hod', H=H, P=P, nt=nt)
    for nt in (1, 2, 5):
        add(f'concat/Nthread={nt}', fam='concat', nt=nt)
    add('searchsorted', fam='search')
    return out


def run(item):
    fam = item['fam']
    acc = None

    def add(r):
        nonlocal acc
        # only memory-safety events belong to this property
        r['events'] = [e for e in r['events'] if e['kind'] in ('oob', 'uninit', 'inconclusive') or (e['kind'] == 'violation' and 'IndexError' in e['what'])]
        for e in r['events']:
            e.setdefault('info', {})['family'] = fam
        if acc is None:
            acc = r
        else:
            for k in ('paths', 'queries', 'solver_s', 'proved', 'reached'):
                acc[k] += r[k]
            acc['events'] += r['events']
            acc['samples'] = (acc['samples'] + r['samples'])[:3]
            acc['assumptions'] = sorted(set(acc['assumptions']) | set(r['assumptions']))
            if r.get('cov'):
                harness.merge_cov(acc.setdefault('cov', {}), r['cov'])
    rp = lambda f: add(common.run_paths(f, cov_funcs=FUNCS, max_paths=60000)[0])
    if fam == 'interp':
        rp(lambda: body_interp(item['n']))
    elif fam == 'mesh':
        rp(lambda: body_mesh(item['kind'], item['n1d']))
    elif fam == 'factorial':
        rp(body_factorial)
    elif fam == 'tsc_misc':
        rp(lambda: body_tsc_misc(item['N']))
    elif fam == 'tsc_parallel':
        for ww in (False, True):
            rp(lambda: body_tsc_parallel(item['npart'], ww))
    elif fam == 'c19':
        from checks import c19
        for pairing in ('i8->i8', 'u4->u8', 'f8->f8'):
            for ini in (False, True):
                for fin in (False, True):
                    n_out = item['N'] - 1 + ini + fin
                    if n_out >= 0:
                        rp(lambda: c19._body(item['N'], ini, fin, n_out, pairing))
    elif fam == 'c04':
        from checks import c04
        rp(lambda: c04.body_rvint(item['N'], 'none', 'supplied', 'f4'))
        rp(lambda: c04.body_pids(item['N'], ['pid', 'lagr_pos', 'tagged', 'density', 'lagr_idx'], 'f4'))
        rp(lambda: c04.body_bits(item['N'], True, 'f8'))
    elif fam == 'c15':
        from checks import c15
        rp(lambda: c15.body_stream(item['M'], 'none', 'supplied', 'f4'))
        rp(c15.body_expand)
    elif fam == 'c01':
        from checks import c01
        rp(lambda: c01.body([0], {0: item['nh']}, 2, 1, item['cleaned'], ('A',), item['mode']))
    elif fam == 'c06':
        from checks import c06
        rp(lambda: c06.body_scatter(item['kind'], tuple(item['shape']), True))
    elif fam == 'c17':
        from checks import c17
        for sort in (False, True):
            rp(lambda: c17.body(item['N'], 2, item['nt'], 0, True, sort))
    elif fam == 'c08':
        from checks import c08
        if item['which'] == 'kmu':
            rp(lambda: c08.body_kmu(item['n1d'], 1, False, (0, 2), True, 2, False))
            rp(lambda: c08.body_kmu(item['n1d'], 1, False, (0, 2), True, 2, False, ambient=1))     # fewer threads left in force by an earlier call
        else:
            rp(lambda: c08.body_kppi(item['n1d'], 1, 2, True, 2, False))
            rp(lambda: c08.body_kppi(item['n1d'], 1, 2, True, 2, False, ambient=1))
    elif fam == 'hod':
        from checks import c10
        rp(lambda: c10.body(item['H'], item['P'], ('LRG', 'ELG'), item['nt']))
    elif fam == 'concat':
        from checks import c10
        for N1 in range(4):
            for N2 in range(4):
                rp(lambda: c10.body_concat(N1, N2, item['nt']))
    elif fam == 'search':
        from checks import c10
        for Na in range(3):
            for Nb in range(3):
                rp(lambda: c10.body_search(Na, Nb))
    # an item of this property always has at least the "monitor silent" obligations of the paths it ran
    if acc is not None and acc['proved'] == 0 and not acc['events']:
        acc['proved'] = acc['paths']
    return acc


def finding_key(e):
    fam = e['info'].get('family', '?')
    site = e['info'].get('site', e['key'])
    return f'{fam}:{e["kind"]}:{site.split(":")[1] if ":" in site else site}'


def validate(tier):
    """The dedicated harnesses' kernels, compiled with NUMBA_BOUNDSCHECK unset vs the engine in concrete mode."""
    n = 0
    x = real_np.array([1.0, 1.5, 2.0])
    y = real_np.array([3.0, -1.0, 4.0])
    for xd in (0.2, 1.0, 1.2, 1.75, 2.0, 9.0):
        ref = ps.linear_interp(xd, x, y)
        res = core.explore(lambda: float(RP.linear_interp(xd, arrays.as_sarr(x), arrays.as_sarr(y))))
        assert len(res) == 1 and abs(res[0].ret - ref) < 1e-12, (xd, res[0].ret, ref)
        n += 1
    f = real_np.random.default_rng(2).random((3, 3, 3))
    ref = ps.normalize_field(f.copy(), tot_weight=10.0, inplace=True, nthread=2)

    def b():
        rebind.NB.reset(2)
        return [float(v) for v in common.cells(RP.normalize_field(arrays.as_sarr(f.copy()), tot_weight=10.0, inplace=True, nthread=2))]
    res = core.explore(b)
    assert real_np.allclose(res[0].ret, ref.ravel())
    n += 1
    return n


REPLAY = '''
os.environ['NUMBA_BOUNDSCHECK'] = '1'
from fractions import Fraction as F
import abacusnbody.analysis.power_spectrum as ps
import abacusnbody.analysis.tsc as tsc
m = {m!r}
case = {case!r}
bad = []
kind = case.get('kind')
def attempt(label, f):
    try:
        f()
    except IndexError as ex:
        bad.append(f'{{label}}: IndexError: {{ex}}')
    except SystemError as ex:
        bad.append(f'{{label}}: {{ex}} / {{ex.__cause__}}')
if kind == 'linear_interp':
    n = case['n']; x = np.arange(n) * 0.5 + 1.0; y = np.arange(n) + 1.0
    xd = float(F(m.get('xd', 0)))
    attempt('py_func', lambda: ps.linear_interp.py_func(xd, x, y)); attempt('compiled', lambda: ps.linear_interp(xd, x, y))
elif kind == 'schedule':
    npart = case['npartition']; N = npart
    pp = np.full((N, 3), 0.5); starts = np.arange(0, N + 1, dtype=np.int64); w = np.ones(N) if case['weights'] else None
    attempt('py_func', lambda: tsc._tsc_parallel.py_func(pp, starts, np.zeros((3, 3, 3)), 3.0, w, 0.0))
elif kind in ('expand_poles_to_3d', 'get_smoothing', 'get_delta_mu2', 'normalize_field', 'shift_field_fft', '_normalize'):
    n1d = case['n1d']; kz = n1d // 2 + 1; L = 2 * np.pi
    if kind == 'expand_poles_to_3d':
        attempt('py_func', lambda: ps.expand_poles_to_3d.py_func(np.array([0.5, 1.0, 1.5]), np.ones((2, 3)), n1d, L, np.array([0, 2])))
    elif kind == 'get_smoothing': attempt('py_func', lambda: ps.get_smoothing.py_func(n1d, L, 0.7))
    elif kind == 'get_delta_mu2': attempt('py_func', lambda: ps.get_delta_mu2.py_func(np.ones((n1d, n1d, kz), dtype=np.complex64), n1d))
    elif kind == 'normalize_field': attempt('py_func', lambda: ps.normalize_field.py_func(np.ones((n1d,) * 3), tot_weight=2.0, inplace=True, nthread=1))
    elif kind == 'shift_field_fft': attempt('py_func', lambda: ps.shift_field_fft.py_func(np.ones((n1d, n1d, kz), dtype=complex), np.ones((n1d, n1d, kz), dtype=complex), n1d, L, 0.5 * L / n1d))
    else: attempt('py_func', lambda: ps._normalize.py_func(np.ones((n1d, n1d, kz)), 2.0, nthread=1))
elif kind == 'tsc_misc':
    attempt('py_func', lambda: tsc._wrap_inplace.py_func(np.zeros((case['N'], 3)), 1.0))
print('case', case)
for b_ in bad: print('  ', b_)
sys.exit(1 if bad else 0)
'''


def replay(e, path):
    fam = e['info'].get('family')
    origin = {'c19': 'c19', 'c04': 'c04', 'c15': 'c15', 'c01': 'c01', 'c06': 'c06', 'c17': 'c17', 'c08': 'c08', 'hod': 'c10', 'concat': 'c10', 'search': 'c10'}.get(fam)
    if origin:
        mod = __import__('checks.' + origin, fromlist=['x'])
        return mod.replay(e, path)
    info = dict(e['info'])
    case = info.pop('case', {})
    return common.write_replay(path, REPLAY.format(m=e.get('model', {}), case=case), env={'NUMBA_BOUNDSCHECK': '1'})


if __name__ == '__main__':
    sys.exit(harness.main(__import__('checks.c11', fromlist=['x'])))
