"""C09 -- galaxies follow the HOD threshold rule and inherit their host.

The real gen_gals -> gen_cent / gen_sats / fast_concatenate / wrap run on symbolic halo and
particle tables (every attribute, every HOD parameter and every random number a free real);
the oracle is the one-host rule of the property: stacked slices LRG -> ELG -> QSO over the
enabled tracers with widths = occupation function x incompleteness x multiplicity (weight)
(x rank decorator), galaxy row = host id/mass/position + velocity-bias velocity, RSD along z
(wrapped) or along the line of sight from the light-cone origin."""
import sys
import itertools
import z3
from checks import common
common.fake_modules()
from checks import hodlib
from checks.common import Sym, SArr, ctx, core, arrays, rebind, harness
import abacusnbody.hod.GRAND_HOD as gh

ID = 'C09'
BOUNDS = {
    'quick': 'hosts H=1 with P=1 particle (the particle\'s host is that halo, so all conformity codes occur), all 7 tracer subsets x '
             'rsd in {off, box observer, light-cone origin} x rank decorators on/off; H=2,P=1 and H=1,P=2 without rsd for 3 tracer sets; '
             'Nthread in {1,2}; every table value, HOD parameter, random, velz2kms, Lbox, origin a free real'
             '; also: fast_concatenate N1,N2 <= 4 x Nthread <= 4; defaults variant (optional tracer keys omitted) for {LRG}, {ELG}, {LRG,ELG,QSO}',
    'thorough': 'quick plus H=2,P=2 (no rsd) and H=2,P=1 with rsd for all tracer subsets',
}
OUTSIDE = 'numeric values of erf/erfc/log10/exp/pow (uninterpreted); the NFW satellite path (draws from np.random); ' \
          'N_cen_ELG_v2 (not called by gen_cent); table sizes above the bound (hosts are processed independently)'
STUBS = ['occupation functions n_cen_LRG, N_cen_ELG_v1, N_cen_QSO, n_sat_LRG_modified, N_sat_elg, N_sat_generic: uninterpreted, '
         'non-negative functions of their arguments inside gen_cent/gen_sats (their bodies are checked in the occupation items)',
         'math.erf/erfc, np.log10, np.exp, x**y: uninterpreted functions', 'np.sqrt: non-negative root',
         'products of two symbolic reals are first abstracted to fresh variables; a query not refuted that way is re-run with the defining equations']
ASSUMPTIONS = ['floats are reals', 'randoms in [0,1] and not on a slice edge (0 included)', 'incompleteness, multiplicities, weights >= 0',
               'velz2kms > 0, Lbox > 0', 'RSD wrap: the shifted coordinate is within one box of [-L/2, L/2) (host positions in the box, |v_los/velz2kms| < L)']
MUST_COVER = {'abacusnbody.hod.GRAND_HOD.gen_cent': 0, 'abacusnbody.hod.GRAND_HOD.gen_sats': 0, 'abacusnbody.hod.GRAND_HOD.wrap': 0,
              'abacusnbody.hod.GRAND_HOD.gen_gals': 34}   # NFW branch and verbose prints
FUNCS = hodlib.FUNCS + [gh.n_cen_LRG, gh.N_cen_ELG_v1, gh.N_cen_QSO, gh.n_sat_LRG_modified, gh.N_sat_elg, gh.N_sat_generic,
                        gh.phi_fun, gh.Phi_fun, gh.Gaussian_fun]


def sources():
    return rebind.source_hash(*FUNCS)


def body(H, P, tracers, rsd, okind, ranks, nt, keyp='hod', defaults=False):
    c = ctx()
    case = dict(H=H, P=P, tracers=list(tracers), rsd=rsd, observer=okind, ranks=ranks, Nthread=nt, defaults=defaults)
    c.extra['case'] = case
    c.extra['keyprefix'] = keyp + ':'
    c.log_access = True
    hd, pd, tr, params, out = hodlib.run_gen_gals(c, H, P, tracers, rsd, okind, ranks, nt, drop_optional=defaults)
    cat, keep = hodlib.expected_catalogue(c, hd, pd, tr, params, tracers, rsd, ranks, H, P)
    c.extra['sample'] = dict(case, central_class=keep, rows={t: [len(cat[t]['cent']), len(cat[t]['sat'])] for t in tracers})
    hodlib.check_catalogue(c, out, cat, params, tracers, rsd, keyp)
    # at most one galaxy per host / particle
    tot_c = sum(len(cat[t]['cent']) for t in tracers)
    tot_s = sum(len(cat[t]['sat']) for t in tracers)
    got_c = sum(int(out[t]['Ncent']) for t in tracers)
    got_s = sum(len(out[t]['x']) - int(out[t]['Ncent']) for t in tracers)
    c.prove(z3.BoolVal(got_c == tot_c <= H and got_s == tot_s <= P), 'a host (particle) carries at most one galaxy', key=keyp + ':atmostone')


def body_nested():
    """Consequences of the rule, decided in real arithmetic on the rule itself: selections are
    nested in the incompleteness, and a later tracer's slice never moves an earlier one."""
    c = ctx()
    c.extra['case'] = dict(kind='nested')
    c.extra['sample'] = c.extra['case']
    r, f1, f2, m, ic1, ic2, jc = (c.input(n, z3.RealSort()) for n in ('r', 'f1', 'f2', 'mult', 'ic1', 'ic2', 'jc'))
    pre = z3.And(f1 >= 0, f2 >= 0, m >= 0, ic1 >= 0, ic2 >= ic1, jc >= 0, r >= 0)
    c.prove(z3.Implies(z3.And(pre, r < f1 * ic1 * m), r < f1 * ic2 * m), 'selected at incompleteness ic1 => selected at ic2 >= ic1 (first slice)',
            key='rule:nested')
    lo = f1 * jc * m
    c.prove(z3.Implies(z3.And(pre, r > lo, r < lo + f2 * ic1 * m), z3.And(r > lo, r < lo + f2 * ic2 * m)),
            'nestedness for a later slice with the earlier slices fixed', key='rule:nested')
    c.prove(z3.Implies(pre, z3.And(r < f1 * ic1 * m) == z3.And(r < f1 * ic1 * m, z3.Or(r < f1 * ic1 * m + f2 * jc * m, True))),
            'the first slice does not depend on the widths stacked after it', key='rule:earlier')


def body_occupation():
    """The real bodies of the six mean-occupation functions, with erf/erfc/log10/exp/pow as
    uninterpreted functions: compare with the documented closed forms."""
    c = ctx()
    c.extra['case'] = dict(kind='occupation')
    c.extra['sample'] = c.extra['case']
    c.extra['keyprefix'] = 'occ:'
    R = hodlib.RREAL
    V = lambda n: Sym(c.input(n, z3.RealSort()))
    M, lc, sig, Mcut, M1, al, ka, As, pmax, Q, ga = (V(n) for n in ('M', 'logMcut', 'sigma', 'Mcut', 'M1', 'alpha', 'kappa', 'A_s', 'pmax', 'Q', 'gamma'))
    c.assume(z3.And(M.e > 0, sig.e > 0, M1.e > 0, Mcut.e > 0, ka.e >= 0, Q.e > 0))
    uf = core.uf
    S2 = 1.41421356
    eq = lambda a, b: core._b(core.lift(a) == core.lift(b))
    c.prove(eq(R.n_cen_LRG(M, lc, sig), 0.5 * uf('erfc', (lc - uf('log10', M)) / (S2 * sig))), 'n_cen_LRG = 1/2 erfc((logMcut - log10 M)/(sqrt2 sigma))', key='occ:n_cen_LRG')
    c.prove(eq(R.N_cen_QSO(M, lc, sig), 0.5 * (1 + uf('erf', (uf('log10', M) - lc) / S2 / sig))), 'N_cen_QSO = 1/2 (1 + erf((log10 M - logMcut)/(sqrt2 sigma)))', key='occ:N_cen_QSO')
    lm = uf('log10', M)
    gauss = 0.3989422804014327 / sig * uf('exp', -((lm - lc) ** 2) / 2 / sig ** 2)
    Phi = 0.5 * (1 + uf('erf', (ga * (lm - lc) / sig) / core.sym_sqrt(core.lift(2.0))))
    c.prove(eq(R.N_cen_ELG_v1(M, pmax, Q, lc, sig, ga), 2.0 * (pmax - 1.0 / Q) * gauss * Phi / 1), 'N_cen_ELG_v1 = 2 (pmax - 1/Q) phi Phi', key='occ:N_cen_ELG_v1')
    # satellites: zero below kappa*Mcut, power law above
    for name, call, form in (
            ('n_sat_LRG_modified', lambda: R.n_sat_LRG_modified(M, lc, Mcut, M1, sig, al, ka),
             lambda: core.sym_pow((M - ka * Mcut) / M1, al) * 0.5 * uf('erfc', (lc - uf('log10', M)) / (S2 * sig))),
            ('N_sat_generic', lambda: R.N_sat_generic(M, Mcut, ka, M1, al, As), lambda: As * core.sym_pow((M - ka * Mcut) / M1, al)),
            ('N_sat_elg', lambda: R.N_sat_elg(M, Mcut, ka, M1, al, As), lambda: As * core.sym_pow((M - ka * Mcut) / M1, al))):
        got = call()        # forks on M - kappa*Mcut < 0
        below = core._b(M - ka * Mcut < 0)
        c.prove(z3.If(below, eq(got, 0), eq(got, form())), f'{name}: 0 below kappa*Mcut, documented power law above', key=f'occ:{name}')


def items(tier, seed):
    out = [dict(name='rule/nested', kind='nested'), dict(name='occupation', kind='occupation')]
    subsets = [s for n in (1, 2, 3) for s in itertools.combinations(['LRG', 'ELG', 'QSO'], n)]
    for tr in subsets:
        for rsd, ok in ((False, 'box'), (True, 'box'), (True, 'origin')):
            for ranks in (False, True):
                nt = 2 if ranks else 1
                out.append(dict(name=f'H1P1/{"+".join(tr)}/rsd={int(rsd)}/{ok}/ranks={int(ranks)}', kind='hod', H=1, P=1, tracers=tr, rsd=rsd, ok=ok, ranks=ranks, nt=nt))
    for tr in (('LRG',), ('LRG', 'ELG'), ('ELG', 'QSO')):
        out.append(dict(name=f'H2P1/{"+".join(tr)}', kind='hod', H=2, P=1, tracers=tr, rsd=False, ok='box', ranks=True, nt=2))
        out.append(dict(name=f'H1P2/{"+".join(tr)}', kind='hod', H=1, P=2, tracers=tr, rsd=False, ok='box', ranks=False, nt=2))
    # the optional keys (assembly bias, incompleteness, conformity, ...) left out: the generator's defaults, read from its current source
    for tr in (('LRG',), ('ELG',), ('LRG', 'ELG', 'QSO')):
        out.append(dict(name=f'defaults/H1P1/{"+".join(tr)}', kind='hod', H=1, P=1, tracers=tr, rsd=False, ok='box', ranks=False, nt=1, defaults=True))
    # centrals-then-satellites assembly: fast_concatenate for every small (centrals, satellites, thread) triple -- the
    # proportional thread split only goes wrong for particular ratios (obligation shared with C10, where it is defined)
    nmax, tmax = (4, 4) if tier == 'quick' else (6, 8)
    for nt in range(1, tmax + 1):
        out.append(dict(name=f'concat/Nthread={nt}', kind='concat', nt=nt, nmax=nmax))
    if tier == 'thorough':
        for tr in subsets:
            out.append(dict(name=f'H2P2/{"+".join(tr)}', kind='hod', H=2, P=2, tracers=tr, rsd=False, ok='box', ranks=True, nt=2))
            out.append(dict(name=f'H2P1/{"+".join(tr)}/rsd', kind='hod', H=2, P=1, tracers=tr, rsd=True, ok='box', ranks=False, nt=3))
    return out


def run(item):
    if item['kind'] == 'concat':
        from checks import c10
        return c10.run(item)
    if item['kind'] == 'nested':
        return common.run_paths(body_nested)[0]
    if item['kind'] == 'occupation':
        return common.run_paths(body_occupation, cov_funcs=FUNCS)[0]
    return common.run_paths(lambda: body(item['H'], item['P'], tuple(item['tracers']), item['rsd'], item['ok'], item['ranks'], item['nt'], defaults=item.get('defaults', False)),
                            cov_funcs=FUNCS, max_paths=60000)[0]


def validate(tier):
    return hodlib.validate()


def replay(e, path):
    if e['info'].get('case', {}).get('kind') == 'concat':
        from checks import c10
        return c10.replay(e, path)
    return hodlib.replay(e, path)


if __name__ == '__main__':
    sys.exit(harness.main(__import__('checks.c09', fromlist=['x'])))
