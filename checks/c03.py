"""C03 -- superslab concatenation and filter_func commute with loading.

On one in-memory catalogue (symbolic column values and particle words, concrete particle
layout) the real constructor is run on the whole file list, on each file alone, and with a
filter function whose result is a free symbolic boolean per halo row (every mask, including
keep-nothing and keep-everything, is a path); the loads are compared row by row and slice by
slice.  _setup_file_paths is exercised on real temporary directory trees."""
import sys
import os
import itertools
import tempfile
import pathlib
import numpy as real_np
import z3
from checks import common, catlib
from checks.common import Sym, SArr, ctx, core, arrays, rebind, harness
import abacusnbody.data.compaso_halo_catalog as chc

ID = 'C03'
BOUNDS = {
    'quick': 'superslabs 1..2 (3 without subsamples) x halos per slab in {0,1,2}; every mask over the rows (free boolean per row); cleaned on/off; '
             'subsamples off / A / A+B (concrete particle layout with gaps and a zero-particle halo, symbolic particle words); fields '
             '[N, id, x_com] and [r25_com]; file-path shapes: directory, halo_info directory, single file, list, permuted list, duplicate, '
             'mixed catalogues, missing cleaning directory (real temporary trees)',
    'thorough': 'as quick with 3 superslabs with subsamples and halos per slab up to 3',
}
OUTSIDE = 'catalogue sizes above the bound (per-file compaction does not depend on the count); symbolic particle layouts (C01); light-cone catalogues'
STUBS = ['asdf.open: in-memory files', 'file discovery replaced by a fixed superslab list in the symbolic runs (checked separately on real directories)']
ASSUMPTIONS = ['floats are reals']
MUST_COVER = {'abacusnbody.data.compaso_halo_catalog.CompaSOHaloCatalog._read_halo_info': 36,     # passthrough / progenitor / verbose branches (C01, C02)
              'abacusnbody.data.compaso_halo_catalog.CompaSOHaloCatalog._setup_file_paths': 8}       # light-cone naming, explicit cleandir
FUNCS = catlib.FUNCS + [chc.CompaSOHaloCatalog._setup_file_paths]

LAY = {  # concrete particle layout per halo row (start, count) in a file of 4 records; merge (start, count) in a cleaned file of 2
    # (the first two halos both own merged particles: a filter that drops the first must not shift where the second reads its own)
    'A': ([(0, 2), (3, 1), (4, 0)], [(0, 1), (1, 1), (2, 0)]),
    'B': ([(1, 1), (2, 0), (2, 2)], [(0, 1), (1, 1), (2, 0)]),
}


def sources():
    return rebind.source_hash(*FUNCS)


def build(c, nhs, cleaned, ABs):
    catlib.RC.set_global('_unpack_euler16', catlib.EulerStub())
    hdr = catlib.header(c)
    files = {}
    for s, n in enumerate(nhs):
        conc = {}
        for AB in ABs:
            o, m = LAY[AB]
            conc[f'npstart{AB}'] = arrays.as_sarr(real_np.array([o[h][0] for h in range(n)], dtype=real_np.uint64))
            conc[f'npout{AB}'] = arrays.as_sarr(real_np.array([o[h][1] for h in range(n)], dtype=real_np.uint32))
            conc[f'npstart{AB}_merge'] = arrays.as_sarr(real_np.array([m[h][0] for h in range(n)], dtype=real_np.int64))
            conc[f'npout{AB}_merge'] = arrays.as_sarr(real_np.array([m[h][1] for h in range(n)], dtype=real_np.uint32))
        d = catlib.LazyData(f's{s}', n, concrete={k: v for k, v in conc.items() if not k.endswith('_merge')})
        d['id']
        files[f'/cat/halo_info/halo_info_{s:03d}.asdf'] = {'header': dict(hdr), 'data': d}
        if cleaned:
            cd = catlib.LazyData(f'c{s}', n, concrete={k: v for k, v in conc.items() if k.endswith('_merge')})
            cd['N_total']
            for v in common.cells(cd['N_total']):
                c.assume(v.e >= 1)       # no cleaned-away halos here (C01 covers them); N_total is what the filter sees as N
            files[f'/clean/cleaned_halo_info/cleaned_halo_info_{s:03d}.asdf'] = {'header': dict(hdr), 'data': cd}
            files[f'/clean/cleaned_rvpid/cleaned_rvpid_{s:03d}.asdf'] = {'header': dict(hdr), 'data': {
                f'rvint_{AB}': common.sym_array(f'c{s}.rv{AB}', (2, 3), 'i4', bv=True) for AB in ABs}}
        for AB in ABs:
            files[f'/cat/halo_rv_{AB}/halo_rv_{AB}_{s:03d}.asdf'] = {'header': dict(hdr), 'data': {'rvint': common.sym_array(f's{s}.rv{AB}', (4, 3), 'i4', bv=True)}}
    catlib.install(files)
    return hdr


def snapshot(cat, ABs):
    """rows of the halo table and, per halo and subsample, the rows of its particle slice"""
    cols = [k for k in cat.halos.colnames if not k.startswith(('npstart', 'npout'))]
    rows = []
    for r in range(len(cat.halos)):
        row = {k: list(real_np.atleast_1d(real_np.asarray(cat.halos[k])[r]).ravel()) for k in cols}
        for AB in ABs:
            st = int(core.lift(real_np.asarray(cat.halos[f'npstart{AB}'])[r]).e.as_long()) if isinstance(real_np.asarray(cat.halos[f'npstart{AB}'])[r], Sym) else int(real_np.asarray(cat.halos[f'npstart{AB}'])[r])
            no = real_np.asarray(cat.halos[f'npout{AB}'])[r]
            no = int(core.lift(no).e.as_long()) if isinstance(no, Sym) else int(no)
            row[f'slice{AB}'] = (st, no, [list(real_np.asarray(cat.subsamples['pos'])[k].ravel()) for k in range(st, st + no)])
        rows.append(row)
    return rows, (len(cat.subsamples) if ABs else 0)


def cells_equal(a, b):
    cs = []
    for x, y in zip(a, b):
        x, y = core.lift(x), core.lift(y)
        if not x.e.eq(y.e):
            cs.append(x.as_int() == y.as_int() if (x.kind == 'v' or y.kind == 'v') else core._b(x == y))
    return z3.And(cs) if cs else z3.BoolVal(True)


def same_row(c, ra, rb, ABs, what, key):
    conds = [z3.BoolVal(set(ra) == set(rb))]
    for k in ra:
        if k.startswith('slice'):
            conds.append(z3.BoolVal(ra[k][1] == rb[k][1]))
            for pa, pb in zip(ra[k][2], rb[k][2]):
                conds.append(cells_equal(pa, pb))
        else:
            conds.append(z3.BoolVal(len(ra[k]) == len(rb.get(k, []))))
            conds.append(cells_equal(ra[k], rb.get(k, [])))
    return c.prove(z3.And(conds), what, key=key)


def contiguous(rows, ABs, total):
    cur = 0
    for AB in ABs:
        for r in rows:
            st, no, _ = r[f'slice{AB}']
            if st != cur:
                return False
            cur += no
    return cur == total


def body(nhs, cleaned, ABs, fields):
    c = ctx()
    case = dict(halos=list(nhs), cleaned=cleaned, AB=''.join(ABs), fields=list(fields))
    c.extra['case'] = case
    c.extra['keyprefix'] = 'concat:'
    build(c, nhs, cleaned, ABs)
    S = len(nhs)
    sub = dict({k: True for k in ABs}, pos=True) if ABs else False
    def kwf():      # the constructor pops keys from the dict it is given: hand it a fresh copy each time
        return dict(fields=list(fields), subsamples=dict(sub) if sub else False)
    full = catlib.construct('/cat', list(range(S)), cleaned, **kwf())
    frows, ftot = snapshot(full, ABs)
    ok = c.prove(z3.BoolVal(len(frows) == sum(nhs) and (not ABs or contiguous(frows, ABs, ftot))),
                 'loading all files gives one row per halo with contiguous particle slices', key='concat:rows')
    if not ok:
        return
    # (1) concatenation: each file alone
    r0 = 0
    for s in range(S):
        one = catlib.construct('/cat', [s], cleaned, **kwf())
        orows, _ = snapshot(one, ABs)
        if len(orows) != nhs[s]:
            c.report('violation', f'file {s} alone has {len(orows)} rows', key='concat:rows')
            return
        for k, ro in enumerate(orows):
            same_row(c, frows[r0 + k], ro, ABs, 'rows (and particle slices) of the file list = row-wise concatenation of each file loaded alone, in file order',
                     'concat:files')
        r0 += nhs[s]
    # (2) permuted file list
    if S >= 2:
        perm = list(range(S))[::-1]
        rev = catlib.construct('/cat', perm, cleaned, **kwf())
        rrows, rtot = snapshot(rev, ABs)
        offs = [sum(nhs[:s]) for s in range(S)]
        r = 0
        okp = len(rrows) == len(frows)
        for s in perm:
            for k in range(nhs[s]):
                if okp:
                    same_row(c, rrows[r], frows[offs[s] + k], ABs, 'a permuted file list yields the files\' rows in the order given', 'concat:order')
                r += 1
    # (3) filter function: a free boolean per row
    masks = []
    seen = {}

    def filt(halos):
        i = len(masks)
        n = len(halos)
        seen[i] = ('N' in halos.colnames, [x for x in real_np.asarray(halos['N'])] if 'N' in halos.colnames else None)
        # a free boolean per row, decided here by forking (astropy needs a real boolean array to index a table)
        m = real_np.array([bool(Sym(c.input(f'mask[{i},{k}]', z3.BoolSort()))) for k in range(n)], dtype=bool)
        masks.append(m)
        return m
    flt = catlib.construct('/cat', list(range(S)), cleaned, filter_func=filt, **kwf())
    keep = []
    for s in range(S):
        for k in range(nhs[s]):
            keep.append(bool(masks[s][k]))
    c.extra['sample'] = dict(case, mask=keep)
    lrows, ltot = snapshot(flt, ABs)
    exp = [r for r, kp in zip(frows, keep) if kp]
    ok = c.prove(z3.BoolVal(len(lrows) == len(exp) and (not ABs or contiguous(lrows, ABs, ltot))),
                 'a filtered load keeps exactly the rows selected by the mask, with contiguously re-indexed particle slices', key='filter:rows',
                 info=dict(mask=keep, rows=len(lrows)))
    if ok:
        for ra, rb in zip(lrows, exp):
            same_row(c, ra, rb, ABs, 'filtered rows and their particle slices equal the masked unfiltered load', 'filter:values')
    if cleaned:
        sees = all(v[0] for v in seen.values())
        ntot_ok = True
        for s in range(S):
            cd = catlib.ASDF.files[f'/clean/cleaned_halo_info/cleaned_halo_info_{s:03d}.asdf']['data']
            if seen[s][1] is None or not all(core.lift(a).e.eq(core.lift(b).e) for a, b in zip(seen[s][1], common.cells(cd['N_total']))):
                ntot_ok = False
        c.prove(z3.BoolVal(sees and ntot_ok), 'for cleaned catalogues the filter sees the cleaned particle count under the name N', key='filter:N')


def paths_body():
    """_setup_file_paths on real temporary directory trees (concrete: file-name parsing, duplicates, mixed catalogues)"""
    c = ctx()
    c.extra['case'] = dict(kind='paths')
    c.extra['sample'] = c.extra['case']
    c.extra['keyprefix'] = 'paths:'
    Cat = catlib.Cat
    res = []
    with tempfile.TemporaryDirectory() as d:
        root = pathlib.Path(d)
        g = root / 'sim' / 'halos' / 'z0.500'
        (g / 'halo_info').mkdir(parents=True)
        for s in (0, 1, 7):
            (g / 'halo_info' / f'halo_info_{s:03d}.asdf').touch()
        g2 = root / 'sim2' / 'halos' / 'z0.500'
        (g2 / 'halo_info').mkdir(parents=True)
        (g2 / 'halo_info' / 'halo_info_000.asdf').touch()
        cl = root / 'cleaning' / 'sim' / 'z0.500' / 'cleaned_halo_info'
        cl.mkdir(parents=True)
        for s in (0, 1, 7):
            (cl / f'cleaned_halo_info_{s:03d}.asdf').touch()
        cat = Cat.__new__(Cat)
        f = lambda s: g / 'halo_info' / f'halo_info_{s:03d}.asdf'

        def run(path, **kw):
            try:
                return cat._setup_file_paths(path, **kw)
            except (ValueError, FileNotFoundError) as e:
                return e
        r = run(g, cleaned=True)
        res.append(not isinstance(r, Exception) and list(r[3]) == [0, 1, 7] and [p.name for p in r[4]] == [f(s).name for s in (0, 1, 7)]
                   and [p.name for p in r[5]] == [f'cleaned_halo_info_{s:03d}.asdf' for s in (0, 1, 7)])
        r2 = run(g / 'halo_info', cleaned=False)
        res.append(not isinstance(r2, Exception) and list(r2[3]) == [0, 1, 7] and r2[0] == g)
        r3 = run(f(7), cleaned=True)
        res.append(not isinstance(r3, Exception) and list(r3[3]) == [7] and r3[0] == g and r3[5][0].name == 'cleaned_halo_info_007.asdf')
        r4 = run([f(7), f(0)], cleaned=False)
        res.append(not isinstance(r4, Exception) and list(r4[3]) == [7, 0] and [p.name for p in r4[4]] == [f(7).name, f(0).name])
        res.append(isinstance(run([f(1), f(0), f(1)], cleaned=False), ValueError))
        res.append(isinstance(run([f(0), g2 / 'halo_info' / 'halo_info_000.asdf'], cleaned=False), ValueError))
        res.append(isinstance(run(g2, cleaned=True), FileNotFoundError))
        res.append(isinstance(run(root / 'sim' / 'halos', cleaned=False), FileNotFoundError))
    c.prove(z3.BoolVal(all(res)), 'file discovery: directory / halo_info directory / single file / list in the given order; superslab indices from the '
            'file names; duplicates, mixed catalogues and a missing cleaning directory are rejected', key='paths:discovery', info=dict(results=res))


def items(tier, seed):
    out = [dict(name='paths', kind='paths')]
    for cleaned in (False, True):
        for ABs in ((), ('A',), ('A', 'B')):
            shapes = [(2,), (1, 2), (2, 0), (0, 1)] if ABs else [(2,), (1, 2), (2, 0, 1), (0, 0)]
            if tier == 'thorough':
                shapes += [(2, 1, 2), (3, 1)] if not ABs else [(2, 1, 1)]
            for nhs in shapes:
                if len(ABs) == 2 and (sum(nhs) > 3 or not cleaned and tier == 'quick' and len(nhs) > 1):
                    continue
                fields = ['N', 'id', 'x_com'] if (len(nhs) + int(cleaned)) % 2 == 0 else ['r25_com', 'N']
                out.append(dict(name=f'cleaned={int(cleaned)}/AB={"".join(ABs) or "-"}/halos={"-".join(map(str, nhs))}', kind='cat', nhs=list(nhs),
                                cleaned=cleaned, ABs=list(ABs), fields=fields))
    return out


def run(item):
    if item['kind'] == 'paths':
        return common.run_paths(paths_body, cov_funcs=FUNCS)[0]
    return common.run_paths(lambda: body(tuple(item['nhs']), item['cleaned'], tuple(item['ABs']), item['fields']), cov_funcs=FUNCS, max_paths=20000)[0]


def validate(tier):
    return catlib.validate_reader()


REPLAY = '''
sys.path.insert(0, {verif!r})
import tempfile, warnings
from checks import realcat
from abacusnbody.data.compaso_halo_catalog import CompaSOHaloCatalog
warnings.simplefilter('ignore')
m = {m!r}
case = {case!r}
bad = []
nhs, cleaned, ABs, fields = case['halos'], case['cleaned'], case['AB'], case['fields']
LAY = {lay!r}
with tempfile.TemporaryDirectory() as d:
    conc, subs = {{}}, {{}}
    for s, n in enumerate(nhs):
        cc = dict(N_total=np.arange(n, dtype=np.uint32) + 20 + 10 * s)
        subs[s] = {{}}
        for AB in ABs:
            o, mm = LAY[AB]
            cc[f'npstart{{AB}}'] = np.array([o[h][0] for h in range(n)], dtype=np.uint64); cc[f'npout{{AB}}'] = np.array([o[h][1] for h in range(n)], dtype=np.uint32)
            cc[f'npstart{{AB}}_merge'] = np.array([mm[h][0] for h in range(n)], dtype=np.int64); cc[f'npout{{AB}}_merge'] = np.array([mm[h][1] for h in range(n)], dtype=np.uint32)
            rv = (np.arange(12, dtype=np.int32).reshape(4, 3) + 100 * s + 1000 * (AB == 'B')) * 4096
            crv = (np.arange(6, dtype=np.int32).reshape(2, 3) + 50000 + 100 * s) * 4096
            subs[s][AB] = (rv, crv, None, None)
        conc[s] = cc
    gdir = realcat.write_catalog(d, m, slabs=tuple(range(len(nhs))), nh=dict(enumerate(nhs)), cleaned=cleaned, subsA=subs, concrete=conc)
    subf = lambda: (dict({{k: True for k in ABs}}, pos=True) if ABs else False)
    fns = [os.path.join(gdir, 'halo_info', f'halo_info_{{s:03d}}.asdf') for s in range(len(nhs))]
    def snap(cat):
        rows = []
        for r in range(len(cat.halos)):
            row = [np.asarray(cat.halos[k][r], dtype=float).ravel().tolist() for k in cat.halos.colnames if not k.startswith(('npstart', 'npout'))]
            for AB in ABs:
                st, no = int(cat.halos[f'npstart{{AB}}'][r]), int(cat.halos[f'npout{{AB}}'][r])
                row.append(np.asarray(cat.subsamples['pos'][st:st + no], dtype=float).tolist())
            rows.append(row)
        return rows
    full = snap(CompaSOHaloCatalog(fns, cleaned=cleaned, fields=fields, subsamples=subf()))
    parts = []
    for fn in fns: parts += snap(CompaSOHaloCatalog(fn, cleaned=cleaned, fields=fields, subsamples=subf()))
    if full != parts: bad.append('loading the file list differs from concatenating the files loaded one by one')
    keep = []
    for s, n in enumerate(nhs): keep += [bool(m.get(f'mask[{{s}},{{k}}]', True)) for k in range(n)]
    it = iter(range(len(nhs)))
    def filt(h):
        s = next(it)
        if cleaned and 'N' not in h.colnames: bad.append('filter does not see column N')
        return np.array([bool(m.get(f'mask[{{s}},{{k}}]', True)) for k in range(len(h))], dtype=bool)
    flt = snap(CompaSOHaloCatalog(fns, cleaned=cleaned, fields=fields, subsamples=subf(), filter_func=filt))
    if flt != [r for r, kp in zip(full, keep) if kp]: bad.append(f'filtered load with mask {{keep}} differs from masking the unfiltered load')
print('case', case, 'mask', keep)
for b_ in bad[:8]: print('  ', b_)
sys.exit(1 if bad else 0)
'''


def replay(e, path):
    info = dict(e['info'])
    case = info.pop('case', {})
    if case.get('kind') == 'paths':
        return None, 'file-discovery counterexample: ' + str(info)
    return common.write_replay(path, REPLAY.format(verif=harness.VERIF, m=e.get('model', {}), case=case, lay=LAY))


if __name__ == '__main__':
    sys.exit(harness.main(__import__('checks.c03', fromlist=['x'])))
