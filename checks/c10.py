"""C10 -- the galaxy catalogue is identical for every thread count.

The real gen_gals -> gen_cent / gen_sats / fast_concatenate (and _searchsorted_parallel) run
for every thread count 1..6 on symbolic tables; the outputs are proved equal to a sequential
reference (galaxies in host order) that does not mention the thread count, every output cell
must be written exactly once, and the prange race monitor must stay silent."""
import sys
import itertools
import numpy as real_np
import z3
from checks import common
common.fake_modules()
from checks import hodlib
from checks.common import Sym, SArr, ctx, core, arrays, rebind, harness
import abacusnbody.hod.GRAND_HOD as gh
import abacusnbody.hod.abacus_hod as ah

ID = 'C10'
BOUNDS = {
    'quick': 'Nthread in 1..6 x (hosts H, particles P) in {(0,0),(1,0),(1,1),(2,1),(3,0),(1,2)} (incl. more threads than hosts, not '
             'divisible, empty tables) x tracer sets {LRG}, {LRG,ELG}; fast_concatenate for N1,N2 in 0..4 x Nthread 1..6; '
             '_searchsorted_parallel for 0..3 sorted ids x 0..3 needles; all values free reals/ints; '
             'IEEE-754 schedule lemma (symnb.fpsched): per-thread host blocks of gen_cent for Nthread in {3,7,11,13} and of gen_sats for Nthread in '
             '{5,11,14} tile the table for EVERY table length in [0, 2^31] under float64 round-to-nearest arithmetic',
    'thorough': 'quick plus (H,P) in {(3,1),(2,2),(4,0)}, tracer set {ELG,QSO}, {LRG,ELG,QSO}; fast_concatenate N up to 6, Nthread up to 8; '
                'schedule lemma for every Nthread in 1..16 and {24,32,48,64} (gen_cent, gen_sats), and for fast_concatenate\'s proportional '
                'thread split with Nthread 2 (lengths <= 1024) and 3 (lengths <= 255)',
}
OUTSIDE = 'per-element behaviour for thread counts above 6 (8 thorough) and table sizes above the bound (the block structure hstart/gstart repeats; ' \
          'the block boundaries themselves are covered for all lengths by the schedule lemma); "bitwise" is term identity in the real model; ' \
          'numba\'s scheduler; fastmath reassociation of the schedule expressions'
STUBS = hodlib.__doc__ and ['occupation functions: uninterpreted non-negative functions', 'np.searchsorted: #{a_j < v} on sorted input (contract)',
                            'schedule lemma: np.linspace as implemented by numba on Float64 terms; element loops recorded as intervals, not iterated']
ASSUMPTIONS = ['floats are reals (per-element obligations); IEEE-754 double with round-to-nearest-even for the schedule lemma', 'randoms not on a slice edge',
               'halo ids sorted increasingly for the particle lookup']
MUST_COVER = {'abacusnbody.hod.GRAND_HOD.fast_concatenate': 0, 'abacusnbody.hod.abacus_hod._searchsorted_parallel': 0,
              'abacusnbody.hod.GRAND_HOD.gen_cent': 60, 'abacusnbody.hod.GRAND_HOD.gen_sats': 60}   # rsd / QSO branches are C09's
FUNCS = [gh.gen_cent, gh.gen_sats, gh.fast_concatenate, gh.gen_gals, ah._searchsorted_parallel]
RA = rebind.Rebound(ah)


def sources():
    return rebind.source_hash(*FUNCS)


def body(H, P, tracers, nt):
    c = ctx()
    case = dict(H=H, P=P, tracers=list(tracers), rsd=False, observer='box', ranks=False, Nthread=nt)
    c.extra['case'] = case
    c.extra['keyprefix'] = 'threads:'
    c.log_access = True
    hd, pd, tr, params, out = hodlib.run_gen_gals(c, H, P, tracers, False, 'box', False, nt)
    cat, keep = hodlib.expected_catalogue(c, hd, pd, tr, params, tracers, False, False, H, P)
    c.extra['sample'] = dict(case, central_class=keep)
    hodlib.check_catalogue(c, out, cat, params, tracers, False, 'threads')
    once = True
    for t in tracers:
        for k, a in out[t].items():
            if k != 'Ncent' and len(a):
                wc = common.wcounts(a)
                once = once and bool((wc == 1).all())
    c.prove(z3.BoolVal(once), 'count pass and fill pass agree: every output cell written exactly once', key='threads:once')


def body_concat(N1, N2, nt):
    c = ctx()
    c.extra['case'] = dict(kind='concat', N1=N1, N2=N2, Nthread=nt)
    c.extra['keyprefix'] = 'concat:'
    c.extra['sample'] = c.extra['case']
    c.log_access = True
    rebind.NB.reset(8)
    a, b = common.sym_array('a', (N1,), 'f8'), common.sym_array('b', (N2,), 'f8')
    r = hodlib.R.fast_concatenate(a, b, nt)
    want = common.cells(a) + common.cells(b)
    got = common.cells(r)
    ok = len(got) == len(want) and all(g is w for g, w in zip(got, want))
    c.prove(z3.BoolVal(ok), 'fast_concatenate = array1 followed by array2 for every thread count', key='concat:value')
    if r is not a and r is not b:
        c.prove(z3.BoolVal(bool((common.wcounts(r) == 1).all())), 'every cell of the result written exactly once', key='concat:once')


def body_search(Na, Nb):
    c = ctx()
    c.extra['case'] = dict(kind='search', Na=Na, Nb=Nb)
    c.extra['keyprefix'] = 'search:'
    c.extra['sample'] = c.extra['case']
    c.log_access = True
    rebind.NB.reset(4)
    a, b = common.sym_array('hid', (Na,), 'i8'), common.sym_array('phid', (Nb,), 'i8')
    for x, y in zip(common.cells(a)[:-1], common.cells(a)[1:]):
        c.assume(x.e < y.e)
    r = RA._searchsorted_parallel(a, b)
    conds = [z3.BoolVal(r.shape == (Nb,))]
    for j in range(Nb):
        n = z3.IntVal(0)
        for x in common.cells(a):
            n = n + z3.If(x.e < common.cell(b, j).e, 1, 0)
        conds.append(core.lift(common.cell(r, j)).as_int() == n)
    c.prove(z3.And(conds), 'host lookup returns the insertion point of each particle id, for every particle', key='search:value')


def items(tier, seed):
    out = []
    hp = [(0, 0), (1, 0), (1, 1), (2, 1), (3, 0), (1, 2)]
    trs = [('LRG',), ('LRG', 'ELG')]
    if tier == 'thorough':
        hp += [(3, 1), (2, 2), (4, 0)]
        trs += [('ELG', 'QSO'), ('LRG', 'ELG', 'QSO')]
    for H, P in hp:
        for tr in trs:
            if len(tr) == 3 and H + P > 3:
                continue
            for nt in range(1, 7):
                out.append(dict(name=f'gals/H={H}/P={P}/{"+".join(tr)}/Nthread={nt}', kind='gals', H=H, P=P, tracers=tr, nt=nt))
    nmax, tmax = (4, 6) if tier == 'quick' else (6, 8)
    for nt in range(1, tmax + 1):
        out.append(dict(name=f'concat/Nthread={nt}', kind='concat', nt=nt, nmax=nmax))
    out.append(dict(name='search', kind='search'))
    from checks import schedlib
    if tier == 'quick':
        out += schedlib.items(['gen_cent'], [3, 7, 11, 13]) + schedlib.items(['gen_sats'], [5, 11, 14])
    else:
        nts = list(range(1, 17)) + [24, 32, 48, 64]
        out += schedlib.items(['gen_cent', 'gen_sats'], nts)
        out += [dict(name='fpsched/fast_concatenate/Nthread=2', kind='fpsched', target='fast_concatenate', nthread=2, lmax=1024),
                dict(name='fpsched/fast_concatenate/Nthread=3', kind='fpsched', target='fast_concatenate', nthread=3, lmax=255)]
    return out


def run(item):
    acc = None

    def add(r):
        nonlocal acc
        if acc is None:
            acc = r
        else:
            for k in ('paths', 'queries', 'solver_s', 'proved', 'reached'):
                acc[k] += r[k]
            acc['events'] += r['events']
            acc['samples'] = (acc['samples'] + r['samples'])[:3]
            acc['assumptions'] = sorted(set(acc['assumptions']) | set(r['assumptions']))
            harness.merge_cov(acc['cov'], r['cov'])
    if item['kind'] == 'fpsched':
        from checks import schedlib
        return schedlib.run(item)
    if item['kind'] == 'gals':
        return common.run_paths(lambda: body(item['H'], item['P'], tuple(item['tracers']), item['nt']), cov_funcs=FUNCS, max_paths=60000)[0]
    if item['kind'] == 'concat':
        for N1 in range(item['nmax'] + 1):
            for N2 in range(item['nmax'] + 1):
                add(common.run_paths(lambda: body_concat(N1, N2, item['nt']), cov_funcs=FUNCS)[0])
        return acc
    for Na in range(4):
        for Nb in range(4):
            add(common.run_paths(lambda: body_search(Na, Nb), cov_funcs=FUNCS)[0])
    return acc


def validate(tier):
    from checks import schedlib
    n = hodlib.validate() + schedlib.validate()
    a = real_np.array([1, 4, 9, 12], dtype=real_np.int64)
    b = real_np.array([9, 0, 13, 4, 5], dtype=real_np.int64)
    ref = ah._searchsorted_parallel(a, b)
    assert ref.tolist() == real_np.searchsorted(a, b).tolist()
    for N1, N2, nt in ((3, 2, 2), (0, 4, 3), (5, 1, 4), (2, 2, 1)):
        x, y = real_np.arange(N1, dtype=float), real_np.arange(N2, dtype=float) + 100
        ref = gh.fast_concatenate(x, y, nt)

        def bodyv():
            rebind.NB.reset(8)
            return [float(v) for v in common.cells(hodlib.R.fast_concatenate(arrays.as_sarr(x), arrays.as_sarr(y), nt))]
        res = core.explore(bodyv)
        assert len(res) == 1 and res[0].ret == ref.tolist(), (N1, N2, nt)
        n += 1
    return n


def replay(e, path):
    i = e['info'].get('case', {})
    if i.get('kind') == 'fpsched':
        from checks import schedlib
        return schedlib.replay(e, path)
    if i.get('kind') in ('concat', 'search'):
        m = e.get('model', {})
        body_ = f'''
from fractions import Fraction as F
import abacusnbody.hod.GRAND_HOD as gh
import abacusnbody.hod.abacus_hod as ah
m = {m!r}
case = {i!r}
bad = []
if case['kind'] == 'concat':
    a = np.arange(case['N1'], dtype=float) + 1; b = np.arange(case['N2'], dtype=float) + 101
    for f, nm in ((gh.fast_concatenate, 'compiled'), (gh.fast_concatenate.py_func, 'py_func')):
        try:
            r = f(a, b, case['Nthread'])
            if r.tolist() != a.tolist() + b.tolist(): bad.append(f'{{nm}}: {{r.tolist()}}')
        except Exception as ex:
            bad.append(f'{{nm}}: raised {{type(ex).__name__}}: {{ex}}')
else:
    a = np.array(sorted(int(F(m.get(f'hid[{{k}}]', k))) for k in range(case['Na'])), dtype=np.int64)
    b = np.array([int(F(m.get(f'phid[{{k}}]', k))) for k in range(case['Nb'])], dtype=np.int64)
    exp = [int((a < v).sum()) for v in b]
    r = ah._searchsorted_parallel(a, b)
    if r.tolist() != exp: bad.append(f'{{r.tolist()}} for ids {{a.tolist()}} needles {{b.tolist()}}')
    # the iterations of a prange may run in any order: execute the real function body (py_func) under other permitted
    # orders -- a result that depends on the order is a data race between iterations
    import numba
    _pr = numba.prange
    for nm, order in (('reverse order', lambda *x: list(range(*x))[::-1]), ('odd iterations first', lambda *x: list(range(*x))[1::2] + list(range(*x))[0::2])):
        numba.prange = order
        try:
            for trial in range(2):
                r2 = np.asarray(ah._searchsorted_parallel.py_func(a, b))
                if r2.tolist() != exp:
                    bad.append(f'py_func with prange iterations in {{nm}}: {{r2.tolist()}} instead of {{exp}} (needles {{b.tolist()}})'); break
        except Exception as ex:
            bad.append(f'py_func with prange iterations in {{nm}}: raised {{type(ex).__name__}}: {{ex}}')
        finally:
            numba.prange = _pr
    # and the compiled kernel on a long table whose equal runs straddle the per-thread chunk boundaries
    if not bad and numba.config.NUMBA_NUM_THREADS > 1:
        A = np.arange(1000, dtype=np.int64) * 3; B = np.repeat(A, 397)
        E = np.searchsorted(A, B)
        for trial in range(5):
            if not np.array_equal(ah._searchsorted_parallel(A, B), E):
                bad.append(f'compiled kernel, {{numba.get_num_threads()}} threads, 1000 ids x 397 particles each: result differs from np.searchsorted (trial {{trial}})'); break
print('case', case)
for b_ in bad: print('  ', b_)
sys.exit(1 if bad else 0)
'''
        return common.write_replay(path, body_)
    return hodlib.replay(e, path)


if __name__ == '__main__':
    sys.exit(harness.main(__import__('checks.c10', fromlist=['x'])))
