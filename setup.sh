#!/bin/sh
# Build the overlay interpreter used by every check: /venv's packages (numba, numpy,
# astropy, asdf, h5py ...) plus z3-solver / cvc5 / scipy / jsonschema from the
# offline wheelhouse.  Idempotent; no network.
set -e
cd "$(dirname "$0")"
V=.venv
if [ ! -x $V/bin/python ] || ! $V/bin/python -c "import z3, numba, numpy" 2>/dev/null; then
    rm -rf $V
    /venv/bin/python -m venv $V
    SP=$($V/bin/python -c "import sysconfig; print(sysconfig.get_paths()['purelib'])")
    printf "import site; site.addsitedir('/venv/lib/python3.12/site-packages')\n" > "$SP/zz_overlay.pth"
    PIP_NO_INDEX=1 $V/bin/python -m pip install -q --no-index --find-links /opt/veriftools/wheels z3-solver
    PIP_NO_INDEX=1 $V/bin/python -m pip install -q --no-index --find-links /opt/veriftools/wheels scipy cvc5 jsonschema >/dev/null 2>&1 || true
fi
$V/bin/python -c "import z3, numba, numpy; print('overlay ok: z3', z3.get_version_string(), 'numba', numba.__version__, 'numpy', numpy.__version__)"
