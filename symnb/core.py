"""symnb.core -- symbolic values, path context and DFS exploration by re-execution.

The real functions of /repo (numba ``py_func`` bodies and plain Python methods) are
executed on these values; every ``if`` on a symbolic condition asks the solver which
sides are feasible under the current path condition and forks.  See DESIGN.md sec. 1.
"""
import fractions
import time
import builtins
import numpy as real_np
import z3
import sys as _sys
if hasattr(_sys, 'set_int_max_str_digits'):
    _sys.set_int_max_str_digits(0)      # solver models may carry rationals with thousands of digits

FORK_TIMEOUT_MS = 2000
PROVE_TIMEOUT_MS = 60000


import threading


def timed_check(solver, timeout_ms):
    """solver.check() with z3's own timeout plus a watchdog that interrupts the context when
    z3 overruns it (z3 does not always honour 'timeout' inside nlsat / preprocessing; an
    interrupted check returns unknown, which every caller treats as inconclusive)."""
    solver.set('timeout', int(timeout_ms))
    wd = threading.Timer(timeout_ms / 1000.0 * 1.5 + 2.0, solver.ctx.interrupt)
    wd.daemon = True
    wd.start()
    try:
        try:
            return solver.check()
        except z3.Z3Exception:
            return z3.unknown
    finally:
        wd.cancel()


class PathInfeasible(BaseException):
    """An assumption made the path condition unsatisfiable: end the path silently."""


class StopPath(BaseException):
    """End this path early (after a monitor violation that makes continuing meaningless)."""


class Inconclusive(Exception):
    """A bound/cap was exceeded or the solver answered unknown on a deciding query."""


class StopAtAlloc(Exception):
    """raised (on request, ctx.extra['stop_at_alloc']) when code asks for an array of symbolic size: lets a
    harness run the prologue of a real function whose body it replaces by a recorder"""


class ModelGap(Exception):
    """The code used something the model does not cover: harness error, never 'holds'."""


# ----------------------------------------------------------------------------------------
# context

class Stats:
    def __init__(self):
        self.queries = 0
        self.solver_s = 0.0
        self.paths = 0
        self.proved = 0

    def add(self, o):
        self.queries += o.queries
        self.solver_s += o.solver_s
        self.paths += o.paths
        self.proved += o.proved


class Ctx:
    def __init__(self, prefix=()):
        self.solver = z3.Solver()
        self.lin = z3.Solver()       # the linear part of the path condition only (fast refutations)
        self.cons = []
        self.prefix = list(prefix)
        self.taken = []      # decisions taken (bool)
        self.open = []       # for decisions beyond prefix: was the other side feasible too
        self.nfresh = 0
        self.inputs = {}     # name -> z3 const
        self.events = []     # violations / notes raised by monitors and oracles
        self.stats = Stats()
        self.assumptions = set()
        self.tag = None      # current prange iteration tag (race monitor)
        self.access_log = []
        self.log_access = False
        self.extra = {}

    # --- variables
    def fresh(self, sort, name='t'):
        self.nfresh += 1
        return z3.Const(f'{name}!{self.nfresh}', sort)

    def input(self, name, sort):
        """A named symbolic input (reported in counterexamples)."""
        if name in self.inputs:
            return self.inputs[name]
        c = z3.Const(name, sort)
        self.inputs[name] = c
        return c

    # --- solver access
    def _check(self, extra, timeout):
        t = time.time()
        self.solver.push()
        try:
            for e in extra:
                self.solver.add(e)
            r = timed_check(self.solver, timeout)
            m = self.solver.model() if r == z3.sat else None
        finally:
            self.solver.pop()
        self.stats.queries += 1
        self.stats.solver_s += time.time() - t
        return str(r), m

    def add(self, c):
        c = _b(c)
        if z3.is_true(c):
            return
        self.cons.append(c)
        self.solver.add(c)
        if _is_linear(c):
            self.lin.add(c)

    def assume(self, c, why=None):
        """Add an assumption; end the path silently if it makes the path infeasible."""
        c = _b(c)
        if why:
            self.assumptions.add(why)
        if z3.is_true(c):
            return
        self.add(c)
        if z3.is_false(c):
            raise PathInfeasible()
        r, _ = self._check([], FORK_TIMEOUT_MS)
        if r == 'unsat':
            raise PathInfeasible()

    def assume_all(self, cs, why=None):
        """Several assumptions with a single feasibility check at the end."""
        if why:
            self.assumptions.add(why)
        for c in cs:
            c = _b(c)
            if z3.is_false(c):
                raise PathInfeasible()
            self.add(c)
        r, _ = self._check([], FORK_TIMEOUT_MS)
        if r == 'unsat':
            raise PathInfeasible()

    def feasible(self, c, timeout=FORK_TIMEOUT_MS):
        """sat / unknown -> True (over-approximation, used for exploration only)."""
        c = _b(c)
        if z3.is_true(c):
            return True
        if z3.is_false(c):
            return False
        if _is_linear(c):
            # refuting c against the linear part of the path condition refutes it against all of it;
            # this keeps integer/linear branch decisions fast when nonlinear constraints are around
            t = time.time()
            self.lin.push()
            self.lin.add(c)
            r0 = timed_check(self.lin, 1000)
            self.lin.pop()
            self.stats.queries += 1
            self.stats.solver_s += time.time() - t
            if r0 == z3.unsat:
                return False
            if r0 == z3.sat and len(self.cons) > len(self.lin.assertions()):
                timeout = min(timeout, 400)     # linear part satisfiable: only the nonlinear rest could refute it; do not wait long
        r, _ = self._check([c], timeout)
        return r != 'unsat'

    def solve(self, c, timeout=PROVE_TIMEOUT_MS):
        """Deciding query: returns ('sat', model) / ('unsat', None) / ('unknown', None).
        Incremental core first; on unknown a fresh (non-incremental) solver, which lets z3
        pick nlsat for nonlinear real arithmetic."""
        c = _b(c)
        if z3.is_false(c):
            return 'unsat', None
        r, m = self._check([c], min(timeout, 1500))
        defs = self.extra.get('absdefs')
        if defs and r != 'unsat':
            # abstracted products: the query was not refuted without their definitions -> exact re-run
            r, m = self._check([c] + list(defs), min(timeout, 20000))
            if r == 'unknown':
                t = time.time()
                s = z3.Solver()
                s.add(self.cons)
                s.add(defs)
                s.add(c)
                rr = timed_check(s, timeout)
                self.stats.queries += 1
                self.stats.solver_s += time.time() - t
                return str(rr), (s.model() if rr == z3.sat else None)
            return r, m
        if r == 'unknown':
            # portfolio: z3's nlsat tactic and its default pipeline each decide some nonlinear queries
            # in milliseconds that the incremental core (above) times out on, and vice versa
            for mk, to in ((lambda: z3.Tactic('qfnra-nlsat').solver(), min(timeout, 10000)), ('incr', min(timeout, 15000)), (z3.Solver, timeout)):
                if mk == 'incr':
                    r, m = self._check([c], to)
                    if r != 'unknown':
                        break
                    continue
                t = time.time()
                try:
                    s = mk()
                    s.add(self.cons)
                    s.add(c)
                    rr = timed_check(s, to)
                    r = str(rr)
                    m = s.model() if rr == z3.sat else None
                except z3.Z3Exception:
                    r, m = 'unknown', None
                self.stats.queries += 1
                self.stats.solver_s += time.time() - t
                if r != 'unknown':
                    break
        return r, m

    def model_inputs(self, m):
        out = {}
        for k, v in self.inputs.items():
            out[k] = _pyval(m.eval(v, model_completion=True))
        # interpretations of the uninterpreted functions (needed to replay UF-dependent paths)
        ufs = {}
        for (name, n), f in _UF.items():
            try:
                fi = m[f]
            except Exception:
                fi = None
            if fi is None:
                continue
            try:
                ent = [[[_pyval(fi.entry(i).arg_value(j)) for j in range(n)], _pyval(fi.entry(i).value())] for i in range(fi.num_entries())]
                ufs[name] = dict(entries=ent, default=_pyval(fi.else_value()))
            except Exception:
                pass
        if ufs:
            out['__uf__'] = ufs
        return out

    def solve_generalized(self, c, subst, timeout=PROVE_TIMEOUT_MS, incremental=False):
        """Decide c under the path condition after replacing the terms t by fresh variables v
        (subst = [(t, v), ...]) in the path condition and in c.  The original problem is an
        instance of the generalised one, so 'unsat' carries over; 'sat' does not (the caller
        falls back to the exact query)."""
        t0 = time.time()
        s = z3.Solver()
        s.set('timeout', int(timeout))
        if incremental:
            s.push()    # incremental mode: SMT core + nla lemmas instead of the tactic pipeline (nlsat)
        if subst == 'drop-defs':
            dropped = {d.get_id() for d in self.extra.get('defs', [])}
            for a in self.cons:
                if a.get_id() not in dropped:
                    s.add(a)
            s.add(_b(c))
        else:
            for a in self.cons:
                s.add(z3.substitute(a, *subst))
            s.add(z3.substitute(_b(c), *subst))
        r = timed_check(s, timeout)
        self.stats.queries += 1
        self.stats.solver_s += time.time() - t0
        return str(r)

    def prove(self, claim, what, key=None, info=None, generalize=None):
        """Assert ``claim`` on this path.  unsat(not claim) -> True.  A counterexample or an
        unknown is recorded as an event; the harness decides what to do with it."""
        claim = _b(claim)
        info = dict(info or {})
        if self.extra.get('case') is not None:
            info.setdefault('case', self.extra['case'])
        if generalize:
            # portfolio with escalating budgets: z3's two arithmetic engines (tactic pipeline with
            # nlsat / incremental SMT core with nla lemmas) each refute some of these polynomial
            # identities in ms and time out on others
            nc = z3.Not(claim)
            for gen, inc, to in ((True, False, 2000), (False, True, 3000), (True, True, 5000), (True, False, 20000)):
                if gen:
                    r = self.solve_generalized(nc, generalize, to, incremental=inc)
                else:
                    r, _ = self._check([nc], to)
                if r == 'unsat':
                    self.stats.proved += 1
                    return True
        r, m = self.solve(z3.Not(claim))
        if r == 'unsat':
            self.stats.proved += 1
            return True
        if r == 'sat':
            self.events.append(dict(kind='violation', what=what, key=key or what,
                                    model=self.model_inputs(m), info=info or {}))
        else:
            self.events.append(dict(kind='inconclusive', what=what, key=key or what, info=info or {}))
        return False

    def report(self, kind, what, key=None, cond=None, info=None):
        """Monitor event.  With ``cond`` the event is recorded only if cond is satisfiable
        (deciding query) and the model is attached."""
        info = dict(info or {})
        if self.extra.get('case') is not None:
            info['case'] = self.extra['case']
        if kind in ('oob', 'uninit', 'race'):
            key = self.extra.get('keyprefix', '') + (key or what)
        if cond is None:
            if self.extra.get('absdefs'):
                r, m = self.solve(z3.BoolVal(True))      # model consistent with the abstracted products
            else:
                r, m = self._check([], FORK_TIMEOUT_MS)
                if r == 'unknown':
                    r, m = self.solve(z3.BoolVal(True))
            if r == 'unsat':
                # exploration over-approximates feasibility (unknown -> explore): this path cannot actually be taken
                return False
            if r == 'unknown':
                self.events.append(dict(kind='inconclusive', what=what + ' [path condition not decided]', key=key or what, info=info or {}))
                return False
            model = self.model_inputs(m) if m is not None else {}
            self.events.append(dict(kind=kind, what=what, key=key or what, model=model, info=info or {}))
            return True
        r, m = self.solve(cond)
        if r == 'sat':
            self.events.append(dict(kind=kind, what=what, key=key or what,
                                    model=self.model_inputs(m), info=info or {}))
            return True
        if r == 'unknown':
            self.events.append(dict(kind='inconclusive', what=what, key=key or what, info=info or {}))
        return False

    # --- forking
    def branch(self, cond):
        cond = _b(cond)
        if z3.is_true(cond):
            return True
        if z3.is_false(cond):
            return False
        pos = len(self.taken)
        if pos < len(self.prefix):
            d = self.prefix[pos]
            self.open.append(False)
        else:
            t = self.feasible(cond)
            f = self.feasible(z3.Not(cond))
            if not t and not f:
                raise PathInfeasible()
            d = t
            self.open.append(t and f)
        self.taken.append(d)
        self.add(cond if d else z3.Not(cond))
        return d

    def values(self, e, cap=64, what='index'):
        """All feasible values of integer term e under the path condition (bounded)."""
        e = z3.simplify(e)
        if z3.is_int_value(e):
            return [e.as_long()]
        if z3.is_bv_value(e):
            return [e.as_long()]
        vals = []
        self.solver.push()
        try:
            while True:
                t = time.time()
                r = timed_check(self.solver, 10000)
                self.stats.queries += 1
                self.stats.solver_s += time.time() - t
                if r == z3.unsat:
                    break
                if r != z3.sat:
                    raise Inconclusive(f'unknown while enumerating values of {what}')
                v = self.solver.model().eval(e, model_completion=True)
                vals.append(v.as_long())
                if len(vals) > cap:
                    raise Inconclusive(f'more than {cap} feasible values for {what}: {e}')
                self.solver.add(e != v)
        finally:
            self.solver.pop()
        return sorted(vals)

    def concretize(self, e, cap=64, what='index'):
        """Fork over the feasible values of integer term e; returns a python int."""
        e = z3.simplify(e)
        if z3.is_int_value(e):
            return e.as_long()
        known = self.extra.setdefault('known', {})
        hit = known.get(e.get_id())
        if hit is not None:
            return hit[1]
        v = self._concretize(e, cap, what)
        known[e.get_id()] = (e, v)
        return v

    def _concretize(self, e, cap, what):
        vals = self.values(e, cap, what)
        if not vals:
            raise PathInfeasible()
        for v in vals[:-1]:
            if self.branch(e == v):
                return v
        self.add(e == vals[-1])
        return vals[-1]


_LIN = {}


def _is_linear(e):
    """no product of two non-constant terms, no division by a non-constant, no uninterpreted function"""
    i = e.get_id()
    r = _LIN.get(i)
    if r is None:
        r = True
        if z3.is_app(e):
            k = e.decl().kind()
            ch = e.children()
            if k == z3.Z3_OP_MUL:
                nonconst = [a for a in ch if not (z3.is_rational_value(a) or z3.is_int_value(a))]
                r = len(nonconst) <= 1
            elif k in (z3.Z3_OP_DIV, z3.Z3_OP_IDIV, z3.Z3_OP_MOD, z3.Z3_OP_REM):
                r = z3.is_rational_value(ch[1]) or z3.is_int_value(ch[1])
            elif k == z3.Z3_OP_UNINTERPRETED and ch:
                r = False
            elif k == z3.Z3_OP_POWER:
                r = False
            if r:
                r = all(_is_linear(a) for a in ch)
        elif z3.is_quantifier(e):
            r = False
        _LIN[i] = r
    return r


CTX = None


def ctx():
    return CTX


class PathResult:
    __slots__ = ('ret', 'events', 'exc', 'taken', 'stats', 'assumptions', 'extra', 'ninputs')

    def __init__(self, ret, c, exc=None):
        self.ret = ret
        self.events = c.events
        self.exc = exc
        self.taken = list(c.taken)
        self.stats = c.stats
        self.assumptions = c.assumptions
        self.extra = c.extra
        self.ninputs = len(c.inputs)


def explore(fn, max_paths=20000, roots=None, catch=()):
    """DFS over fork decisions by re-execution.  ``fn()`` is the harness body: it builds
    its symbolic inputs, runs the real code and applies its oracle through ctx().prove.
    Exceptions listed in ``catch`` raised by the code under test are delivered to the
    caller in PathResult.exc (the harness body normally handles them itself)."""
    global CTX
    from . import arrays
    results = []
    stack = [list(p) for p in (roots or [[]])]
    while stack:
        prefix = stack.pop()
        c = Ctx(prefix)
        CTX = c
        arrays.reset_registry()
        ret, exc = None, None
        try:
            ret = fn()
        except PathInfeasible:
            exc = 'infeasible'
        except StopPath:
            exc = 'stopped'
        except catch as e:  # noqa
            exc = e
        except (ModelGap, Inconclusive):
            CTX = None
            raise
        except Exception as e:
            # an unexpected exception out of the code under test on a feasible path is a finding
            # in its own right (replayed like any other); harness bugs surface as failed replays
            import traceback
            tb = traceback.extract_tb(e.__traceback__)
            where = [f for f in tb if '/abacusnbody/' in f.filename]
            if not where or (isinstance(e, AssertionError) and '/abacusnbody/' not in tb[-1].filename):
                CTX = None
                raise
            site = f'{where[-1].filename.split("abacusnbody/")[-1]}:{where[-1].name}:{where[-1].lineno}'
            n_ev = len(c.events)
            c.report('violation', f'the code raised {type(e).__name__}: {e} at {site}', key=f'raises:{type(e).__name__}:{where[-1].name}',
                     info=dict(site=site))
            if len(c.events) > n_ev:
                c.events[-1]['key'] = c.extra.get('keyprefix', '') + c.events[-1]['key']
            exc = 'raised'
        finally:
            CTX = None
        c.stats.paths = 1
        for i in range(len(prefix), len(c.taken)):
            if c.open[i]:
                stack.append(c.taken[:i] + [not c.taken[i]])
        results.append(PathResult(ret, c, exc))
        if len(results) > max_paths:
            raise Inconclusive(f'more than {max_paths} paths')
    return results


# ----------------------------------------------------------------------------------------
# values

def _frac(x):
    """A concrete float entering the real-arithmetic model: the nearby rational it stands for.
    0.0005 -> 1/2000; the result of a concrete float computation such as 9*(35*x*x-30*x+3)/8 at
    x = 1/3 (-3.5000000000000004) -> -7/2.  Floats are reals in this model, so rounding noise (1e-12 relative) of a
    concrete float computation around a small-denominator rational is discarded; anything else is taken exactly."""
    x = float(x)
    f = fractions.Fraction(x)
    # small denominators first: a double that is one ulp off the double of p/q (q small) must still stand for p/q, not for
    # some other rational with a 12-digit denominator that happens to round to it
    g = f.limit_denominator(10 ** 6)
    if abs(float(g) - x) <= 1e-12 * max(1.0, abs(x)):
        return g
    g = f.limit_denominator(10 ** 12)
    if float(g) == x:
        return g
    return f


def _pyval(v):
    if z3.is_int_value(v):
        return v.as_long()
    if z3.is_bv_value(v):
        return v.as_long()
    if z3.is_rational_value(v):
        n, d = v.numerator_as_long(), v.denominator_as_long()
        return n if d == 1 else f'{n}/{d}'
    if z3.is_true(v):
        return True
    if z3.is_false(v):
        return False
    if z3.is_algebraic_value(v):
        a = v.approx(20)
        return f'{a.numerator_as_long()}/{a.denominator_as_long()}'
    return str(v)


def as_fraction(v):
    """Model value (as produced by _pyval) -> Fraction."""
    if isinstance(v, str):
        return fractions.Fraction(v)
    return fractions.Fraction(v)


def _b(c):
    if isinstance(c, Sym):
        return c.as_bool()
    if isinstance(c, (bool, real_np.bool_)):
        return z3.BoolVal(bool(c))
    return c


class Sym:
    """A z3 term of sort Int, Real, Bool or BitVec.  ``sg`` is the signedness for BitVec."""
    __slots__ = ('e', 'sg')
    __array_ufunc__ = None
    __hash__ = None

    def __init__(self, e, sg=None):
        self.e = e
        self.sg = sg

    # -- classification
    @property
    def kind(self):
        s = self.e.sort()
        k = s.kind()
        if k == z3.Z3_INT_SORT:
            return 'i'
        if k == z3.Z3_REAL_SORT:
            return 'r'
        if k == z3.Z3_BOOL_SORT:
            return 'b'
        if k == z3.Z3_BV_SORT:
            return 'v'
        raise ModelGap(f'sort {s}')

    def __repr__(self):
        return f'Sym({self.e})'

    def as_bool(self):
        k = self.kind
        if k == 'b':
            return self.e
        if k == 'v':
            return self.e != z3.BitVecVal(0, self.e.size())
        return self.e != 0

    def as_int(self):
        k = self.kind
        if k == 'i':
            return self.e
        if k == 'v':
            return z3.BV2Int(self.e, bool(self.sg))
        if k == 'b':
            return z3.If(self.e, z3.IntVal(1), z3.IntVal(0))
        raise ModelGap('real used as int')

    def as_real(self):
        k = self.kind
        if k == 'r':
            return self.e
        return z3.ToReal(self.as_int())

    def bv64(self):
        """numba widening of an integer to 64 bits."""
        assert self.kind == 'v'
        w = self.e.size()
        if w == 64:
            return self.e
        return z3.SignExt(64 - w, self.e) if self.sg else z3.ZeroExt(64 - w, self.e)

    # -- arithmetic
    def _bin(self, o, op, rev=False):
        if isinstance(o, real_np.ndarray):
            out = real_np.empty(o.shape, dtype=object)
            for idx in real_np.ndindex(*o.shape):
                out[idx] = self._bin(o[idx], op, rev)
            from .arrays import wrap_like, np_int_wrap, logical_dtype_of
            if CTX is not None and CTX.extra.get('numpy_int_semantics') and self.kind in 'ib' and op in ('add', 'sub', 'mul', 'floordiv', '+', '-', '*', '//'):
                # numpy (NEP 50): an integer scalar does not widen a narrow integer array -- the result keeps the array's dtype and wraps
                ldt = logical_dtype_of(o)
                if ldt is not None and ldt.kind in 'iu' and ldt.itemsize < 8:
                    for idx in real_np.ndindex(*o.shape):
                        out[idx] = np_int_wrap(out[idx], ldt, str(op))
            return wrap_like(out, o)
        if isinstance(o, Cplx):
            return NotImplemented
        try:
            o = lift(o)
        except TypeError:
            return NotImplemented
        a, b = (o, self) if rev else (self, o)
        return _arith(a, b, op)

    def __add__(s, o): return s._bin(o, 'add')
    def __radd__(s, o): return s._bin(o, 'add', True)
    def __sub__(s, o): return s._bin(o, 'sub')
    def __rsub__(s, o): return s._bin(o, 'sub', True)
    def __mul__(s, o): return s._bin(o, 'mul')
    def __rmul__(s, o): return s._bin(o, 'mul', True)
    def __truediv__(s, o): return s._bin(o, 'div')
    def __rtruediv__(s, o): return s._bin(o, 'div', True)
    def __floordiv__(s, o): return s._bin(o, 'fdiv')
    def __rfloordiv__(s, o): return s._bin(o, 'fdiv', True)
    def __mod__(s, o): return s._bin(o, 'mod')
    def __rmod__(s, o): return s._bin(o, 'mod', True)
    def __and__(s, o): return s._bin(o, 'and')
    def __rand__(s, o): return s._bin(o, 'and', True)
    def __or__(s, o): return s._bin(o, 'or')
    def __ror__(s, o): return s._bin(o, 'or', True)
    def __xor__(s, o): return s._bin(o, 'xor')
    def __rxor__(s, o): return s._bin(o, 'xor', True)
    def __lshift__(s, o): return s._bin(o, 'shl')
    def __rlshift__(s, o): return s._bin(o, 'shl', True)
    def __rshift__(s, o): return s._bin(o, 'shr')
    def __rrshift__(s, o): return s._bin(o, 'shr', True)
    def __lt__(s, o): return s._bin(o, 'lt')
    def __le__(s, o): return s._bin(o, 'le')
    def __gt__(s, o): return s._bin(o, 'gt')
    def __ge__(s, o): return s._bin(o, 'ge')
    def __eq__(s, o):
        if o is None:
            return False
        return s._bin(o, 'eq')
    def __ne__(s, o):
        if o is None:
            return True
        return s._bin(o, 'ne')

    def __pow__(s, o):
        return sym_pow(s, o)

    def __rpow__(s, o):
        return sym_pow(lift(o), s)

    def __neg__(s):
        if s.kind == 'b':
            return Sym(-s.as_int())
        return Sym(z3.simplify(-s.e), s.sg)

    def __pos__(s):
        return s

    def __invert__(s):
        if s.kind == 'b':
            return Sym(z3.Not(s.e))
        if s.kind == 'v':
            return Sym(~s.bv64(), s.sg)
        return Sym(-s.e - 1)

    def __abs__(s):
        if s.kind == 'v':
            if not s.sg:
                return s
            e = s.bv64()
            return Sym(z3.If(e < 0, -e, e), True)
        return Sym(z3.simplify(z3.If(s.e >= 0, s.e, -s.e)))

    def __bool__(s):
        return CTX.branch(s.as_bool())

    def __round__(s, nd=None):
        if nd is not None:
            raise ModelGap('round(x, nd)')
        return sym_round(s)

    def __int__(s):
        raise ModelGap('int() on a symbolic value: shadow builtins.int in the rebound globals')

    def __float__(s):
        raise ModelGap('float() on a symbolic value (value escaped into uninstrumented code)')

    def __index__(s):
        k = s.kind
        if k == 'b':
            return int(bool(s))
        if k == 'r':
            raise TypeError('real used as index')
        return CTX.concretize(s.as_int(), what='__index__')

    def __trunc__(s):
        return sym_trunc(s)

    def __floor__(s):
        return sym_floor(s)

    def sqrt(s):
        return sym_sqrt(s)

    # numpy scalar compatibility used by code under test
    def astype(s, t):
        from .arrays import as_caster
        return as_caster(t)(s)

    def item(s):
        return s

    @property
    def real(s):
        return s

    @property
    def imag(s):
        return 0.0


def lift(x):
    """python / numpy scalar or Sym -> Sym."""
    if isinstance(x, Sym):
        return x
    if isinstance(x, (bool, real_np.bool_)):
        return Sym(z3.BoolVal(bool(x)))
    if isinstance(x, (int, real_np.integer)):
        return Sym(z3.IntVal(int(x)))
    if isinstance(x, (float, real_np.floating)):
        if x != x or x in (float('inf'), float('-inf')):
            raise ModelGap(f'non-finite float {x} reached the symbolic arithmetic')
        f = _frac(x)
        return Sym(z3.RealVal(str(f)))
    if isinstance(x, fractions.Fraction):
        return Sym(z3.RealVal(str(x)))
    raise TypeError(f'cannot lift {type(x)}')


def is_sym(x):
    return isinstance(x, (Sym, Cplx))


def _bvconst(o, other):
    """python int literal meeting a bit-vector operand: takes the operand's signedness."""
    return z3.BitVecVal(o.e.as_long(), 64)


def _arith(a, b, op):
    ka, kb = a.kind, b.kind
    # ---- booleans
    if ka == 'b' and kb == 'b' and op in ('and', 'or', 'xor', 'eq', 'ne'):
        f = {'and': z3.And, 'or': z3.Or, 'xor': z3.Xor, 'eq': lambda x, y: x == y, 'ne': lambda x, y: x != y}[op]
        return Sym(z3.simplify(f(a.e, b.e)))
    if ka == 'b':
        a = Sym(a.as_int()); ka = 'i'
    if kb == 'b':
        b = Sym(b.as_int()); kb = 'i'
    # ---- bit-vectors (numba: everything is widened to 64 bits first)
    if ka == 'v' or kb == 'v':
        if (ka == 'r' or kb == 'r') or op == 'div':
            x = a.as_real() if ka != 'r' else a.e
            y = b.as_real() if kb != 'r' else b.e
            return _real_op(x, y, op)
        if ka == 'v' and kb == 'v':
            x, y = a.bv64(), b.bv64()
            if op in ('shl', 'shr'):
                sg = a.sg   # numba: a shift has the (widened) type of its left operand
            elif a.sg == b.sg:
                sg = a.sg
            else:
                # mixed signedness: numba unifies (intN, uintM<64) to int64; int64 with
                # uint64 becomes float64 -- not modelled.
                us = a if not a.sg else b
                if us.e.size() == 64:
                    raise ModelGap('int64 (op) uint64 promotes to float64 in numba')
                sg = True
        elif ka == 'v':
            if not z3.is_int_value(z3.simplify(b.e)):
                # BV with a symbolic mathematical int: go to Int
                return _int_op(a.as_int(), b.e, op)
            x, y, sg = a.bv64(), z3.BitVecVal(z3.simplify(b.e).as_long(), 64), a.sg
        else:
            if not z3.is_int_value(z3.simplify(a.e)):
                return _int_op(a.e, b.as_int(), op)
            x, y, sg = z3.BitVecVal(z3.simplify(a.e).as_long(), 64), b.bv64(), b.sg
        return _bv_op(x, y, op, sg)
    if ka == 'r' or kb == 'r' or op == 'div':
        return _real_op(a.as_real(), b.as_real(), op)
    return _int_op(a.e, b.e, op)


def _bv_op(x, y, op, sg):
    S = lambda e: Sym(z3.simplify(e), sg)
    if op == 'add': return S(x + y)
    if op == 'sub': return S(x - y)
    if op == 'mul': return S(x * y)
    if op == 'and': return S(x & y)
    if op == 'or': return S(x | y)
    if op == 'xor': return S(x ^ y)
    if op == 'shl': return S(x << y)
    if op == 'shr': return S((x >> y) if sg else z3.LShR(x, y))
    if op == 'eq': return Sym(z3.simplify(x == y))
    if op == 'ne': return Sym(z3.simplify(x != y))
    if op == 'lt': return Sym(z3.simplify((x < y) if sg else z3.ULT(x, y)))
    if op == 'le': return Sym(z3.simplify((x <= y) if sg else z3.ULE(x, y)))
    if op == 'gt': return Sym(z3.simplify((x > y) if sg else z3.UGT(x, y)))
    if op == 'ge': return Sym(z3.simplify((x >= y) if sg else z3.UGE(x, y)))
    if op in ('fdiv', 'mod'):
        return _int_op(z3.BV2Int(x, bool(sg)), z3.BV2Int(y, bool(sg)), op)
    raise ModelGap(f'bit-vector op {op}')


def _int_op(x, y, op):
    S = lambda e: Sym(z3.simplify(e))
    if op == 'add': return S(x + y)
    if op == 'sub': return S(x - y)
    if op == 'mul': return S(x * y)
    if op == 'fdiv':
        ys = z3.simplify(y)
        if z3.is_int_value(ys) and ys.as_long() > 0:
            return S(x / y)
        q = x / y   # z3: remainder non-negative
        return S(z3.If(y > 0, q, z3.If(x % y == 0, q, q - 1)))
    if op == 'mod':
        ys = z3.simplify(y)
        if z3.is_int_value(ys) and ys.as_long() > 0:
            return S(x % y)
        r = x % y
        return S(z3.If(y > 0, r, z3.If(r == 0, r, r + y)))
    if op == 'eq': return S(x == y)
    if op == 'ne': return S(x != y)
    if op == 'lt': return S(x < y)
    if op == 'le': return S(x <= y)
    if op == 'gt': return S(x > y)
    if op == 'ge': return S(x >= y)
    if op in ('and', 'or', 'xor', 'shl', 'shr'):
        xs, ys = z3.simplify(x), z3.simplify(y)
        if z3.is_int_value(xs) and z3.is_int_value(ys):
            a, b = xs.as_long(), ys.as_long()
            return S(z3.IntVal({'and': a & b, 'or': a | b, 'xor': a ^ b, 'shl': a << b, 'shr': a >> b}[op]))
        if op == 'shl' and z3.is_int_value(ys):
            return S(x * (1 << ys.as_long()))
        if op == 'shr' and z3.is_int_value(ys):
            return S(x / (1 << ys.as_long()))
        raise ModelGap(f'bitwise {op} on mathematical integers')
    raise ModelGap(f'int op {op}')


def rdiv(x, y):
    """x / y over the reals, written as x * (1/y) for a non-constant divisor so that both
    the code's and an oracle's quotients are polynomials in the same reciprocal term
    (z3 takes tens of seconds to equate a*(1/b) with a/b otherwise).  Equivalent for y != 0;
    division by zero is outside the real model anyway."""
    ys = z3.simplify(y)
    if z3.is_rational_value(ys) or z3.is_int_value(ys):
        return x / y
    if CTX is not None and CTX.extra.get('recip_witnesses'):
        r = _recip_of(ys)
        if r is not None:
            return x * r
    return x * (z3.RealVal(1) / ys)


def _recip_of(ys):
    """Opt-in (ctx.extra['recip_witnesses']): division by a square-root witness w (or by the
    reciprocal witness q of one, possibly times a rational) is turned into multiplication:
    1/w is a fresh q with q*w == 1, q > 0 and the redundant lemma q*q*arg == 1; 1/q is w.  All
    constraints stay polynomial, which z3 decides where x/sqrt(..) terms time out.  Assumes the
    square root is non-zero (recorded as an assumption)."""
    c = CTX
    reg = c.extra.setdefault('recip', {})
    coef = None
    v = ys
    if z3.is_app(ys) and ys.decl().kind() == z3.Z3_OP_MUL and ys.num_args() == 2 and z3.is_rational_value(ys.arg(0)):
        coef, v = ys.arg(0), ys.arg(1)
    i = v.get_id()
    if i not in reg:
        arg = c.extra.get('sqrt_args', {}).get(i)
        if arg is None:
            return None
        q = c.fresh(z3.RealSort(), 'rsqrt')
        c.assumptions.add('a square root that is divided by is non-zero')
        c.add(z3.And(q * v == 1, q > 0, v > 0, q * q * arg[0] == 1))
        reg[i] = (v, q)
        reg[q.get_id()] = (q, v)
    partner = reg[i][1]
    return partner if coef is None else partner / coef


_RECIP = {}


def _has_recip(e):
    """does the term contain a division by a non-constant?"""
    i = e.get_id()
    r = _RECIP.get(i)
    if r is None:
        r = False
        if z3.is_app(e):
            if e.decl().kind() == z3.Z3_OP_DIV and not z3.is_rational_value(e.arg(1)) and not z3.is_int_value(e.arg(1)):
                r = True
            else:
                r = any(_has_recip(a) for a in e.children())
        _RECIP[i] = r
    return r


def _named_product(x, y):
    """Opt-in (ctx.extra['name_products']): a product in which one factor contains a reciprocal
    of a variable (e.g. (x+offset)*(n/box)) is given a name: a fresh variable v with the
    defining constraint v == x*y, recorded in ctx.extra['defs'].  Everything computed from it
    is then polynomial in v, and a deciding query may first be tried with the definitions
    dropped (a generalisation: unsat carries over to the full query)."""
    c = CTX
    memo = c.extra.setdefault('prodmemo', {})
    key = (x.get_id(), y.get_id())
    if key not in memo:
        v = c.fresh(z3.RealSort(), 'prod')
        d = v == x * y
        c.extra.setdefault('defs', []).append(d)
        c.add(d)
        memo[key] = (x, y, v)
    return memo[key][2]


def _abstract_product(x, y):
    """Opt-in (ctx.extra['abstract_products']): a product of two non-constant real terms
    becomes a fresh variable (same factors -> same variable, commutatively); the defining
    equation is kept in ctx.extra['absdefs'] and is NOT given to the solver for branch
    feasibility (an over-approximation: extra paths are harmless) nor for the first attempt of
    a deciding query.  A deciding query that is not refuted without the definitions is
    re-run with them, so verdicts are exact."""
    c = CTX
    memo = c.extra.setdefault('absmemo', {})
    a, b = (x, y) if x.get_id() <= y.get_id() else (y, x)
    key = (a.get_id(), b.get_id())
    if key not in memo:
        v = c.fresh(z3.RealSort(), 'mul')
        c.extra.setdefault('absdefs', []).append(v == a * b)
        memo[key] = (a, b, v)
    return memo[key][2]


def _real_op(x, y, op):
    S = lambda e: Sym(z3.simplify(e))
    if op == 'add': return S(x + y)
    if op == 'sub': return S(x - y)
    if op in ('mul', 'div') and CTX is not None and CTX.extra.get('abstract_products'):
        xs, ys = z3.simplify(x), z3.simplify(y)
        if not z3.is_rational_value(ys) and not (op == 'mul' and z3.is_rational_value(xs)):
            if op == 'div':
                ys = z3.RealVal(1) / ys
            if z3.is_rational_value(xs):
                return S(xs * ys)
            return Sym(_abstract_product(xs, ys))
    if op == 'mul':
        if CTX is not None and CTX.extra.get('name_products'):
            xs, ys = z3.simplify(x), z3.simplify(y)
            if not z3.is_rational_value(xs) and not z3.is_rational_value(ys) and (_has_recip(xs) or _has_recip(ys)):
                return Sym(_named_product(xs, ys))
        return S(x * y)
    if op == 'div':
        if CTX is not None and CTX.extra.get('name_products'):
            xs, ys = z3.simplify(x), z3.simplify(y)
            if not z3.is_rational_value(xs) and not z3.is_rational_value(ys):
                return Sym(_named_product(xs, z3.RealVal(1) / ys))
        return S(rdiv(x, y))
    if op == 'eq': return S(x == y)
    if op == 'ne': return S(x != y)
    if op == 'lt': return S(x < y)
    if op == 'le': return S(x <= y)
    if op == 'gt': return S(x > y)
    if op == 'ge': return S(x >= y)
    if op == 'fdiv':
        return S(z3.ToReal(z3.ToInt(x / y)))
    if op == 'mod':
        return S(x - y * z3.ToReal(z3.ToInt(x / y)))
    raise ModelGap(f'real op {op}')


# ---- rounding family

def sym_round(s):
    """round-half-even to an Int (python round() / numba round())."""
    if s.kind in ('i', 'v', 'b'):
        return s
    k = CTX.fresh(z3.IntSort(), 'rnd')
    x = s.e
    kr = z3.ToReal(k)
    CTX.add(z3.And(kr - x <= z3.RealVal('1/2'), x - kr <= z3.RealVal('1/2'),
                   z3.Implies(z3.Or(kr - x == z3.RealVal('1/2'), x - kr == z3.RealVal('1/2')), k % 2 == 0)))
    # redundant lemma instances (z3's mixed integer/real reasoning does not find them on its own): a value strictly
    # within 1/2 of an integer input rounds to that integer
    ints = [v for v in CTX.inputs.values() if v.sort() == z3.IntSort()][:6]
    for m in ints:
        mr = z3.ToReal(m)
        CTX.add(z3.Implies(z3.And(x - mr < z3.RealVal('1/2'), mr - x < z3.RealVal('1/2')), k == m))
    return Sym(k)


def sym_floor(s):
    if s.kind != 'r':
        return s
    return Sym(z3.simplify(z3.ToInt(s.e)))


def sym_trunc(s):
    """float -> int conversion (toward zero)."""
    if s.kind != 'r':
        return s
    e = s.e
    return Sym(z3.simplify(z3.If(e >= 0, z3.ToInt(e), -z3.ToInt(-e))))


def sym_sqrt(s):
    s = lift(s)
    x = z3.simplify(s.as_real())
    if z3.is_rational_value(x):
        f = fractions.Fraction(x.numerator_as_long(), x.denominator_as_long())
        import math
        if f >= 0:
            n, d = math.isqrt(f.numerator), math.isqrt(f.denominator)
            if n * n == f.numerator and d * d == f.denominator:
                return Sym(z3.RealVal(str(fractions.Fraction(n, d))))
    key = ('sqrt', x.get_id())
    memo = CTX.extra.setdefault('memo', {})
    if key in memo:
        return memo[key][1]
    r = CTX.fresh(z3.RealSort(), 'sqrt')
    CTX.assumptions.add('sqrt arguments are >= 0 (sqrt(x) is the non-negative root r with r*r == x)')
    CTX.add(z3.And(r >= 0, r * r == x))
    CTX.extra.setdefault('sqrt_args', {})[r.get_id()] = (x, r)
    out = Sym(r)
    memo[key] = (x, out)
    return out


_UF = {}


def uf(name, *args):
    """Uninterpreted real function applied to Sym/concrete real arguments."""
    args = [lift(a).as_real() for a in args]
    key = (name, len(args))
    if key not in _UF:
        _UF[key] = z3.Function(name, *([z3.RealSort()] * (len(args) + 1)))
    return Sym(_UF[key](*args))


def sym_pow(a, b):
    a = lift(a) if not isinstance(a, Sym) else a
    if isinstance(b, Sym):
        bs = z3.simplify(b.e)
        if z3.is_int_value(bs):
            b = bs.as_long()
        elif z3.is_rational_value(bs):
            b = fractions.Fraction(bs.numerator_as_long(), bs.denominator_as_long())
        else:
            return uf('pow', a, b)
    if isinstance(b, (float, real_np.floating)):
        b = _frac(b)
        if b.denominator == 1:
            b = int(b)
    if isinstance(b, (int, real_np.integer)):
        b = int(b)
        if b < 0:
            return 1.0 / sym_pow(a, -b)
        if b == 0:
            return lift(1.0) if a.kind == 'r' else lift(1)
        r = a
        for _ in range(b - 1):
            r = r * a
        return r
    if isinstance(b, fractions.Fraction) and b.denominator == 2:
        r = sym_sqrt(a)
        return sym_pow(r, b.numerator)
    return uf('pow', a, lift(b))


def ite(c, a, b):
    """Merged conditional value."""
    c = _b(c)
    if z3.is_true(c):
        return a
    if z3.is_false(c):
        return b
    a, b = lift(a), lift(b)
    if a.kind == 'v' and b.kind == 'v' and a.e.size() == b.e.size():
        return Sym(z3.If(c, a.e, b.e), a.sg)
    if a.kind == 'b' and b.kind == 'b':
        return Sym(z3.If(c, a.e, b.e))
    if a.kind in ('i', 'b', 'v') and b.kind in ('i', 'b', 'v'):
        return Sym(z3.If(c, a.as_int(), b.as_int()))
    return Sym(z3.If(c, a.as_real(), b.as_real()))


def smin(*a):
    if len(a) == 1:
        a = list(a[0])
    if not any(isinstance(x, Sym) for x in a):
        return builtins.min(a)
    r = a[0]
    for x in a[1:]:
        r = ite(lift(x) < lift(r), x, r)
    return r


def smax(*a):
    if len(a) == 1:
        a = list(a[0])
    if not any(isinstance(x, Sym) for x in a):
        return builtins.max(a)
    r = a[0]
    for x in a[1:]:
        r = ite(lift(x) > lift(r), x, r)
    return r


def sint(x=0):
    """builtins.int shadow."""
    if isinstance(x, Sym):
        return sym_trunc(x) if x.kind == 'r' else (Sym(x.as_int()) if x.kind == 'b' else x)
    return builtins.int(x)


def sfloat(x=0.0):
    if isinstance(x, Sym):
        return Sym(x.as_real()) if x.kind != 'r' else x
    return builtins.float(x)


def sabs(x):
    return abs(x)


def srange(*a):
    a = [CTX.concretize(x.as_int(), what='range bound') if isinstance(x, Sym) else builtins.int(x) for x in a]
    return builtins.range(*a)


def sround(x, nd=None):
    if isinstance(x, Sym):
        r = x.__round__(nd)
        if CTX is not None:
            CTX.extra.setdefault('rounds', []).append((x, r))   # harnesses may read which cell was chosen
        return r
    if nd is None and isinstance(x, (float, real_np.floating)):
        return builtins.round(float(x))
    return builtins.round(x, nd) if nd is not None else builtins.round(x)


# ---- complex pairs (power spectrum lemmas)

class Cplx:
    __slots__ = ('re', 'im')
    __array_ufunc__ = None
    __hash__ = None

    def __init__(self, re, im=0.0):
        self.re = re
        self.im = im

    @staticmethod
    def of(x):
        if isinstance(x, Cplx):
            return x
        if isinstance(x, (complex, real_np.complexfloating)):
            return Cplx(float(x.real), float(x.imag))
        return Cplx(x, 0.0)

    def __repr__(self):
        return f'Cplx({self.re}, {self.im})'

    def _arr(self, o, f):
        out = real_np.empty(o.shape, dtype=object)
        for idx in real_np.ndindex(*o.shape):
            out[idx] = f(o[idx])
        from .arrays import wrap_like
        return wrap_like(out, o)

    def __add__(s, o):
        if isinstance(o, real_np.ndarray): return s._arr(o, lambda t: s + t)
        o = Cplx.of(o); return Cplx(s.re + o.re, s.im + o.im)
    __radd__ = __add__
    def __sub__(s, o):
        if isinstance(o, real_np.ndarray): return s._arr(o, lambda t: s - t)
        o = Cplx.of(o); return Cplx(s.re - o.re, s.im - o.im)
    def __rsub__(s, o):
        if isinstance(o, real_np.ndarray): return s._arr(o, lambda t: t - s)
        o = Cplx.of(o); return Cplx(o.re - s.re, o.im - s.im)
    def __mul__(s, o):
        if isinstance(o, real_np.ndarray): return s._arr(o, lambda t: s * t)
        if not isinstance(o, (Cplx, complex, real_np.complexfloating)):
            return Cplx(s.re * o, s.im * o)
        o = Cplx.of(o); return Cplx(s.re * o.re - s.im * o.im, s.re * o.im + s.im * o.re)
    __rmul__ = __mul__
    def __truediv__(s, o):
        if isinstance(o, real_np.ndarray): return s._arr(o, lambda t: s / t)
        if not isinstance(o, (Cplx, complex, real_np.complexfloating)):
            return Cplx(s.re / o, s.im / o)
        o = Cplx.of(o); d = o.re * o.re + o.im * o.im
        return Cplx((s.re * o.re + s.im * o.im) / d, (s.im * o.re - s.re * o.im) / d)
    def __rtruediv__(s, o):
        return Cplx.of(o) / s
    def __neg__(s): return Cplx(-s.re, -s.im)
    def conjugate(s): return Cplx(s.re, -s.im)
    conj = conjugate
    @property
    def real(s): return s.re
    @property
    def imag(s): return s.im
    def __abs__(s): return sym_sqrt(lift(s.re * s.re + s.im * s.im))
    def __eq__(s, o):
        o = Cplx.of(o)
        return Sym(z3.And(_b(lift(s.re) == lift(o.re)), _b(lift(s.im) == lift(o.im))))
