"""symnb.harness -- common driver: work items -> parallel exploration -> replay -> verdict,
evidence file, known findings.  Exit codes: 0 held within bounds, 1 VIOLATION (replayed on
the real code), 2 inconclusive / harness error (never reported as success)."""
import json
import multiprocessing as mp
import os
import re
import subprocess
import sys
import time
import traceback

VERIF = os.path.dirname(os.path.dirname(os.path.abspath(__file__)))
PY = os.path.join(VERIF, '.venv', 'bin', 'python')
KNOWN = os.path.join(VERIF, 'known_findings.json')


# ----------------------------------------------------------------------------------------
# line coverage of the re-bound code objects (sys.monitoring, python 3.12)

class LineCov:
    TOOL = 3

    def __init__(self, funcs):
        self.codes = {}
        for f in funcs:
            from .rebind import pyfunc_of
            f = pyfunc_of(f)
            co = f.__code__
            self.codes[co] = f'{f.__module__}.{f.__qualname__}'
        self.hit = {co: set() for co in self.codes}
        self.on = False

    def start(self):
        try:
            mon = sys.monitoring
            mon.use_tool_id(self.TOOL, 'symnb')
            mon.register_callback(self.TOOL, mon.events.LINE, self._line)
            for co in self.codes:
                mon.set_local_events(self.TOOL, co, mon.events.LINE)
            self.on = True
        except Exception:
            self.on = False

    def _line(self, code, line):
        h = self.hit.get(code)
        if h is not None:
            h.add(line)
        return sys.monitoring.DISABLE

    def stop(self):
        if self.on:
            try:
                sys.monitoring.free_tool_id(self.TOOL)
            except Exception:
                pass
            self.on = False

    def result(self):
        out = {}
        for co, name in self.codes.items():
            lines = {ln for _, _, ln in co.co_lines() if ln is not None and ln > co.co_firstlineno}
            out[name] = [sorted(self.hit[co] & lines), sorted(lines)]
        return out


def merge_cov(a, b):
    for k, (hit, lines) in b.items():
        if k in a:
            a[k] = [sorted(set(a[k][0]) | set(hit)), lines]
        else:
            a[k] = [hit, lines]
    return a


# ----------------------------------------------------------------------------------------
# item execution (in worker processes)

def _run_item(args):
    modname, item = args
    t0 = time.time()
    crash = os.environ.get('VERIF_TEST_CRASH')       # self-test of the lost-worker path: die once on the named item
    if crash and crash == item.get('name'):
        mark = os.path.join(VERIF, '.run', 'crashed.' + slug(crash))
        os.makedirs(os.path.dirname(mark), exist_ok=True)
        if not os.path.exists(mark):
            open(mark, 'w').close()
            os._exit(9)
    try:
        # debugging aids: which item a worker is on, and SIGUSR1 -> python stack into .run/
        import faulthandler, signal
        rd = os.path.join(VERIF, '.run')
        os.makedirs(rd, exist_ok=True)
        with open(os.path.join(rd, f'{os.getpid()}.item'), 'w') as f:
            f.write(item['name'] + '\n')
        faulthandler.register(signal.SIGUSR1, file=open(os.path.join(rd, f'{os.getpid()}.stack'), 'w'), all_threads=True)
    except Exception:
        pass
    try:
        mod = __import__(modname, fromlist=['x'])
        res = mod.run(item)
        res.setdefault('item', item)
        res['wall_s'] = time.time() - t0
        return res
    except BaseException as e:   # noqa: worker must always answer
        return dict(item=item, error=f'{type(e).__name__}: {e}', tb=traceback.format_exc(), wall_s=time.time() - t0,
                    paths=0, queries=0, solver_s=0.0, proved=0, events=[], samples=[])


def collect(results, maxsamples=3):
    """Fold a list of core.PathResult into an item result dict."""
    out = dict(paths=0, queries=0, solver_s=0.0, proved=0, events=[], samples=[], assumptions=set(), reached=0)
    for r in results:
        out['paths'] += 1
        out['queries'] += r.stats.queries
        out['solver_s'] += r.stats.solver_s
        out['proved'] += r.stats.proved
        out['assumptions'] |= set(r.assumptions)
        if r.exc not in ('infeasible',):
            out['reached'] += 1
        for e in r.events:
            out['events'].append(e)
        if len(out['samples']) < maxsamples and r.extra.get('sample') is not None:
            out['samples'].append(r.extra['sample'])
    out['assumptions'] = sorted(out['assumptions'])
    return out


def slug(s):
    return re.sub(r'[^A-Za-z0-9_.=-]+', '_', s)[:120]


def load_known():
    if not os.path.exists(KNOWN):
        return dict(findings=[], fixed=[])
    return json.load(open(KNOWN))


def _worker_init():
    """per-worker address-space limit: a query that explodes must fail in its own process instead of taking the machine down"""
    try:
        import resource
        lim = int(os.environ.get('VERIF_WORKER_GB', '12')) << 30
        resource.setrlimit(resource.RLIMIT_AS, (lim, lim))
    except Exception:
        pass


def run_replay_script(path, timeout=600, env=None):
    """Replay scripts exit 1 when the violation reproduces on the real code, 0 when the real
    code behaves correctly, anything else = replay harness problem."""
    e = dict(os.environ)
    e.update(env or {})
    e['PYTHONPATH'] = os.environ.get('VERIF_REPO', '/repo')
    try:        # a script that does not even compile must not be mistaken for 'reproduced' (python exits 1 on SyntaxError)
        compile(open(path).read(), path, 'exec')
    except SyntaxError as ex:
        return 3, f'replay script does not compile: {ex}'
    p = subprocess.run([PY, path], capture_output=True, text=True, timeout=timeout, env=e)
    return p.returncode, (p.stdout + p.stderr)[-4000:]


def main(mod, argv=None):
    import argparse
    ap = argparse.ArgumentParser()
    ap.add_argument('--tier', default=os.environ.get('VERIF_TIER', 'quick'))
    ap.add_argument('--procs', type=int, default=int(os.environ.get('VERIF_PROCS', '16')))
    ap.add_argument('--replay', default=None)
    ap.add_argument('--only', default=None, help='substring filter on item names (debugging)')
    a = ap.parse_args(argv)
    tier = a.tier if a.tier in ('quick', 'thorough') else 'quick'
    seed = int(os.environ.get('VERIF_SEED', '0') or 0)
    pid = mod.ID
    if a.replay:
        rc, out = run_replay_script(a.replay)
        print(out)
        print(f'replay exit={rc} ({"violation reproduced" if rc == 1 else "not reproduced" if rc == 0 else "replay error"})')
        return 1 if rc == 1 else 0 if rc == 0 else 2
    t0 = time.time()
    os.makedirs(os.path.join(VERIF, 'evidence'), exist_ok=True)
    os.makedirs(os.path.join(VERIF, 'replays', pid), exist_ok=True)
    items = mod.items(tier, seed)
    if a.only:
        items = [i for i in items if a.only in i['name']]
    # translator validation first: the model of numba semantics vs the compiled kernels
    # fork the workers first, while this process is still single-threaded: the validation step
    # below runs compiled (possibly parallel) numba kernels, and forking after their thread pools
    # exist can dead-lock the children
    ctxm = mp.get_context('fork')
    nproc = max(1, min(a.procs, len(items)))
    pool = None
    if nproc > 1:
        import concurrent.futures as cf
        pool = cf.ProcessPoolExecutor(max_workers=nproc, mp_context=ctxm, initializer=_worker_init)
        # start every worker now (a ProcessPoolExecutor forks lazily, on submit)
        for f in [pool.submit(time.sleep, 0.3) for _ in range(nproc)]:
            f.result()
    valerr = None
    try:
        nvalid = mod.validate(tier)
    except Exception as e:
        # Engine-vs-real-code disagreement on concrete inputs.  If the symbolic items then report a
        # (replayed) violation, the real code is simply broken on those inputs too; if they
        # report nothing, the model is not to be trusted: harness error.
        nvalid = 0
        valerr = f'{type(e).__name__}: {e}\n{traceback.format_exc()[-1500:]}'
    if pool is not None:
        import concurrent.futures as cf
        results = []
        todo = list(items)
        for attempt in range(3):
            lost = []
            futs = {pool.submit(_run_item, (mod.__name__, i)): i for i in todo}
            try:
                for f in cf.as_completed(futs):
                    try:
                        results.append(f.result())
                    except Exception as e:       # BrokenProcessPool: a worker died (memory limit, crash inside the solver library)
                        lost.append((futs[f], f'{type(e).__name__}: {e}'))
            finally:
                pool.shutdown(wait=False, cancel_futures=True)
            if not lost:
                break
            if attempt == 2:
                # never hang, never pass: what could not be decided after two fresh pools is an error
                results += [dict(item=i, error=f'worker process lost ({why}); this item was not decided', tb='', wall_s=0.0) for i, why in lost]
                break
            # one crashed worker takes the whole executor down: start a fresh one for the items that were not decided
            print(f'note: a worker process died; re-running {len(lost)} undecided item(s) in a fresh pool (attempt {attempt + 2})', flush=True)
            todo = [i for i, _ in lost]
            pool = cf.ProcessPoolExecutor(max_workers=max(1, min(nproc, len(todo))), mp_context=ctxm, initializer=_worker_init)
    else:
        _worker_init()
        results = [_run_item((mod.__name__, i)) for i in items]
    results.sort(key=lambda r: r['item']['name'])
    errors = [r for r in results if r.get('error')]
    tot = dict(paths=0, queries=0, solver_s=0.0, proved=0, reached=0)
    events, samples, assumptions, cov = [], [], set(getattr(mod, 'ASSUMPTIONS', [])), {}
    for r in results:
        for k in tot:
            tot[k] += r.get(k, 0)
        for e in r.get('events', []):
            e['item'] = r['item']['name']
            events.append(e)
        for s in r.get('samples', [])[:1]:
            if len(samples) < 6:
                samples.append(dict(item=r['item']['name'], **s) if isinstance(s, dict) else dict(item=r['item']['name'], sample=s))
        assumptions |= set(r.get('assumptions', []))
        if r.get('cov'):
            merge_cov(cov, r['cov'])
    if hasattr(mod, 'finalize'):
        # cross-item obligations (e.g. pairwise distinctness of per-item solver results)
        extra_events, extra_proved = mod.finalize(results)
        events += extra_events
        tot['proved'] += extra_proved
    vacuous = [r['item']['name'] for r in results if not r.get('error') and r.get('proved', 0) + len(r.get('events', [])) == 0
               and not r['item'].get('expect_no_obligation')]
    # ---- violations: dedupe by key, replay on the real code
    known = load_known()
    viol = {}
    for e in events:
        if e['kind'] in ('violation', 'oob', 'uninit', 'race'):
            k = mod.finding_key(e) if hasattr(mod, 'finding_key') else e['key']
            lst = viol.setdefault(k, [])
            # a few candidate witnesses per finding (from different items first): the first one that replays on the real code counts
            if len(lst) < 4 and (len(lst) < 2 or all(e.get('item') != x.get('item') for x in lst)):
                lst.append(e)
    inconcl = [e for e in events if e['kind'] == 'inconclusive']
    # A deciding query the solver could not settle is never a pass.  It may still hide a real violation
    # (satisfiable nonlinear queries are where z3 gives up): hand the obligation to the check's replay,
    # which exercises the real code on the case's concrete family; a reproduced failure is reported as a
    # violation (the replay, not the solver, is then the witness), anything else stays inconclusive.
    if inconcl and getattr(mod, 'REPLAY_UNKNOWN', False):
        still = []
        tried = set()
        for e in inconcl:
            k = 'unknown:' + (mod.finding_key(e) if hasattr(mod, 'finding_key') else e['key']) + ':' + json.dumps(e.get('info', {}).get('case', {}), sort_keys=True)
            if k in tried:
                continue
            tried.add(k)
            path = os.path.join(VERIF, 'replays', pid, slug(k) + '.py')
            try:
                rep, detail = mod.replay(dict(e, model=e.get('model', {})), path)
            except Exception as ex:
                rep, detail = None, str(ex)
            if rep:
                e2 = dict(e, kind='violation', model=e.get('model', {}), what=e['what'] + ' [solver: unknown; violation found by the replay on the real code]')
                viol.setdefault((mod.finding_key(e2) if hasattr(mod, 'finding_key') else e2['key']), []).insert(0, e2)
            else:
                still.append(e)
        inconcl = still
    status = 0
    nviol = 0
    lines = []
    for k, cands in sorted(viol.items()):
        path = os.path.join(VERIF, 'replays', pid, slug(k) + '.py')
        reproduced, detail, e = None, '', cands[0]
        for cand in cands:
            try:
                rep, det = mod.replay(cand, path)
            except Exception as ex:
                rep, det = None, f'replay construction failed: {ex}\n{traceback.format_exc()}'
            if rep:
                reproduced, detail, e = rep, det, cand
                break
            if reproduced is None:
                reproduced, detail, e = rep, det, cand
        if reproduced is None or reproduced is False:
            lines.append(f'HARNESS-ERROR property={pid} counterexample for "{k}" ({e["what"]}) did not reproduce on the real code '
                         f'({len(cands)} witness(es) tried): {str(detail)[-1500:]}\n  item={e.get("item")} model={json.dumps(e.get("model"))[:1500]}')
            status = max(status, 2)
            continue
        kf = [f for f in known.get('findings', []) if f['property'] == pid and f['key'] == k]
        if kf:
            lines.append(f'KNOWN-FINDING: property={pid} {kf[0]["what"]} [key={k}] replay={path}')
        else:
            nviol += 1
            lines.append(f'VIOLATION property={pid} replay={path}\n  what: {e["what"]}\n  key: {k}\n  item: {e.get("item")}\n'
                         f'  input: {json.dumps(e.get("model"))[:2000]}\n  replay: {str(detail)[-1200:]}')
            status = max(status, 1) if status != 2 else 2
    for r in errors:
        lines.append(f'HARNESS-ERROR property={pid} item {r["item"]["name"]}: {r["error"]}\n{r.get("tb", "")[-3000:]}')
        status = 2
    if inconcl:
        for e in inconcl[:5]:
            lines.append(f'INCONCLUSIVE property={pid} item={e.get("item")} {e["what"]}')
        status = 2 if status != 1 else 1
    if valerr and status == 0:
        lines.append(f'HARNESS-ERROR property={pid} model validation against the real code failed and no item explains it: {valerr}')
        status = 2
    elif valerr:
        lines.append(f'note: the concrete model-validation step also failed on this tree: {valerr.splitlines()[0][:300]}')
    if vacuous:
        lines.append(f'HARNESS-ERROR property={pid} vacuous items (no obligation reached): {vacuous[:8]}')
        status = 2 if status != 1 else 1
    # anchored-line coverage
    covsum = {}
    for name, (hit, lines_) in cov.items():
        covsum[name] = dict(lines=len(lines_), hit=len(hit), missed=[ln for ln in lines_ if ln not in hit][:40])
    need = getattr(mod, 'MUST_COVER', None)
    if need and not a.only:
        for name, allowed_missing in need.items():
            cs = covsum.get(name)
            # vacuity guard, not a style rule: the listed functions must be (almost) fully exercised.  The
            # slack of 15% of the function's lines keeps the guard from tripping on unrelated edits of /repo.
            if cs is None or (cs['lines'] - cs['hit']) > allowed_missing + 0.15 * cs['lines']:
                lines.append(f'HARNESS-ERROR property={pid} line coverage of {name} incomplete: {cs}')
                status = 2 if status != 1 else 1
    if nviol > 0:
        status = 1      # a violation replayed on the real code is the verdict, whatever else went wrong in other items
    wall = time.time() - t0
    names, shash = mod.sources()
    ev = dict(
        property_id=pid, tier=tier, seed=seed, level='model_checking',
        coverage=dict(
            states=tot['paths'], transitions=tot['queries'], traces_validated_against_impl=int(nvalid),
            samples=samples or [dict(note='no sample recorded')],
            obligations_proved=tot['proved'], items=len(items), solver_s=round(tot['solver_s'], 2),
            functions_executed_symbolically=names, source_sha256_16=shash,
            bounds=getattr(mod, 'BOUNDS', {}).get(tier, ''), outside_bounds=getattr(mod, 'OUTSIDE', ''),
            stubs=getattr(mod, 'STUBS', []), line_coverage=covsum,
            engine='symnb (operator-overloading symbolic execution of py_func code objects) + z3 ' + _z3v(),
            reachability='every path that reaches an obligation is solver-feasible (branch feasibility is checked at every fork); '
                         f'{tot["reached"]} feasible paths, items with zero obligations are reported as harness errors',
            item_wall_s={r['item']['name']: round(r.get('wall_s', 0), 1) for r in sorted(results, key=lambda r: -r.get('wall_s', 0))[:8]},
            verdict={0: 'held within bounds', 1: 'violation', 2: 'inconclusive'}[status],
            exhaustive=False,
        ),
        assumptions=sorted(assumptions),
        wall_s=round(wall, 2), violations=nviol,
    )
    if hasattr(mod, 'extra_evidence'):
        ev['coverage'].update(mod.extra_evidence(results))
    # evidence describes /repo itself: a self-test run against a scratch copy (VERIF_REPO) writes next to that copy instead
    scratch = os.environ.get('VERIF_REPO', '/repo').rstrip('/')
    evpath = os.path.join(VERIF, 'evidence', f'{pid}.json') if scratch == '/repo' else os.path.join(scratch, f'_verif_evidence_{pid}.json')
    with open(evpath, 'w') as f:
        json.dump(ev, f, indent=1, default=str)
    for ln in lines:
        print(ln)
    print(f'{pid} [{tier}] items={len(items)} paths={tot["paths"]} queries={tot["queries"]} proved={tot["proved"]} '
          f'validated={nvalid} solver={tot["solver_s"]:.1f}s wall={wall:.1f}s -> exit {status}')
    return status


def _z3v():
    try:
        import z3
        return z3.get_version_string()
    except Exception:
        return '?'
