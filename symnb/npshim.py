"""symnb.npshim -- the ``np`` namespace seen by re-bound code: an explicit allow-list.
Anything not listed raises ModelGap (harness error), never a silent fallback."""
import builtins
import math as real_math
import numpy as real_np
import z3
from . import core
from .core import Sym, Cplx, lift, ModelGap, ite
from .arrays import SArr, T, as_caster, as_npdtype, as_sarr, cast_value, UNINIT, root_info, sint, sfloat, _cint


def _is_symarr(a):
    return isinstance(a, SArr) or (isinstance(a, real_np.ndarray) and a.dtype == object)


def _shape(shape):
    if isinstance(shape, (list, tuple)):
        return tuple(_cint(s, 'array length') for s in shape)
    return (_cint(shape, 'array length'),)


def _newdt(dtype, default='f8'):
    if dtype is None:
        dtype = default
    t = as_caster(dtype)
    return t


def empty(shape, dtype=None, **k):
    t = _newdt(dtype)
    shape = _shape(shape)
    if t.dt.subdtype:
        base, sub = t.dt.subdtype
        return SArr(shape + sub, T(base))
    return SArr(shape, t)


def full(shape, v, dtype=None, **k):
    t = _newdt(dtype, 'f8' if isinstance(v, (float, Sym)) else 'i8')
    a = SArr(_shape(shape), t, fill=None)
    real_np.ndarray.fill(a, cast_value(v, t.dt))
    return a


def zeros(shape, dtype=None, **k):
    t = _newdt(dtype)
    a = empty(shape, t)
    real_np.ndarray.fill(a, cast_value(0, t.dt.base if t.dt.subdtype else t.dt))
    return a


def ones(shape, dtype=None, **k):
    t = _newdt(dtype)
    a = empty(shape, t)
    real_np.ndarray.fill(a, cast_value(1, t.dt))
    return a


def empty_like(a, dtype=None, **k):
    return SArr(a.shape, dtype if dtype is not None else a.dtype)


def zeros_like(a, dtype=None, **k):
    return zeros(a.shape, dtype if dtype is not None else a.dtype)


def ones_like(a, dtype=None, **k):
    return ones(a.shape, dtype if dtype is not None else a.dtype)


def asarray(a, dtype=None, **k):
    if isinstance(a, SArr):
        if dtype is not None and as_npdtype(dtype) != a.dtype.dt:
            return a.astype(dtype)
        return a
    if isinstance(a, (Sym, Cplx)):
        o = SArr((), dtype or 'f8', fill=None)
        real_np.ndarray.__setitem__(o, (), a)
        return o
    if isinstance(a, (list, tuple)) and builtins.any(isinstance(x, (Sym, Cplx, real_np.ndarray, list, tuple)) for x in a):
        return array(a, dtype)
    r = real_np.asarray(a)
    if r.dtype == object:
        # an object buffer the engine knows (e.g. an astropy Column of symbolic cells): numpy returns a view when the requested
        # dtype is the array's own and a converted COPY otherwise -- which decides whether later in-place writes alias
        from .arrays import logical_dtype_of
        ldt = logical_dtype_of(a) if isinstance(a, real_np.ndarray) else None
        if ldt is not None:
            v = as_sarr(r, ldt)
            if dtype is not None and as_npdtype(dtype) != ldt:
                return v.astype(dtype)
            return v
        return as_sarr(r, dtype)
    if dtype is not None:
        r = real_np.asarray(a, dtype=as_npdtype(dtype))
    return as_sarr(r)


asanyarray = asarray


def array(a, dtype=None, copy=True, **k):
    if isinstance(a, SArr):
        r = a.copy()
        return r.astype(dtype) if dtype is not None else r
    if isinstance(a, (list, tuple)):
        if len(a) and builtins.any(isinstance(x, real_np.ndarray) for x in a):
            parts = [asarray(x) for x in a]
            o = real_np.empty((len(parts),) + parts[0].shape, dtype=object)
            for n, pz in enumerate(parts):
                o[n] = real_np.ndarray.view(pz, real_np.ndarray)
            r = as_sarr(o, dtype or parts[0].dtype)
            root_info(r, ld=r.dtype)
            return r
        if builtins.any(isinstance(x, (Sym, Cplx)) for x in _flatten(a)):
            o = real_np.empty(_list_shape(a), dtype=object)
            _fill_from_list(o, a)
            kinds = {x.kind for x in _flatten(a) if isinstance(x, Sym)}
            dt = dtype or ('f8' if 'r' in kinds or builtins.any(isinstance(x, float) for x in _flatten(a)) else 'i8')
            r = as_sarr(o, dt)
            root_info(r, ld=r.dtype)
            return r
    r = real_np.array(a, dtype=as_npdtype(dtype) if dtype is not None else None)
    return as_sarr(r)


def _flatten(a):
    for x in a:
        if isinstance(x, (list, tuple)):
            yield from _flatten(x)
        else:
            yield x


def _list_shape(a):
    sh = []
    while isinstance(a, (list, tuple)):
        sh.append(len(a))
        a = a[0] if len(a) else None
    return tuple(sh)


def _fill_from_list(o, a, pre=()):
    for n, x in enumerate(a):
        if isinstance(x, (list, tuple)):
            _fill_from_list(o, x, pre + (n,))
        else:
            o[pre + (n,)] = x


def ascontiguousarray(a, dtype=None):
    a = asarray(a, dtype)
    r = real_np.ascontiguousarray(real_np.ndarray.view(a, real_np.ndarray)).view(SArr)
    r._ldhint = a.dtype
    if r.base is None or not real_np.shares_memory(r, a):
        root_info(r, ld=a.dtype)
    return r


def arange(*a, dtype=None):
    a = [_cint(x, 'arange bound') if isinstance(x, Sym) else x for x in a]
    return as_sarr(real_np.arange(*a), dtype)


def linspace(a, b, n, **k):
    n = _cint(n, 'linspace count')
    if isinstance(a, Sym) or isinstance(b, Sym):
        o = SArr((n,), 'f8', fill=None)
        for i in range(n):
            real_np.ndarray.__setitem__(o, i, a + (b - a) * (i / (n - 1) if n > 1 else 0.0) if i < n - 1 or n == 1 else b * 1.0)
        return o
    return as_sarr(real_np.linspace(a, b, n))


def cumsum(a, axis=None, dtype=None, **k):
    a = asarray(a)
    if axis is not None:
        raise ModelGap('cumsum(axis=...)')
    flat = real_np.ndarray.view(a, real_np.ndarray).ravel()
    o = SArr((flat.size,), dtype or a.dtype, fill=None)
    tot = None
    for i in range(flat.size):
        tot = flat[i] if tot is None else tot + flat[i]
        real_np.ndarray.__setitem__(o, i, tot)
    return o


def sum(a, axis=None, **k):
    return asarray(a).sum(axis=axis)


def _map(f, conc):
    def g(x, *rest, **k):
        if isinstance(x, real_np.ndarray):
            if x.dtype != object:
                x = as_sarr(x)
            o = real_np.empty(x.shape, dtype=object)
            src = real_np.ndarray.view(x, real_np.ndarray)
            for idx in real_np.ndindex(*x.shape):
                v = src[idx]
                o[idx] = f(v, *rest) if isinstance(v, (Sym, Cplx)) else conc(v, *rest)
            r = o.view(SArr)
            r._ldhint = x._ldhint if isinstance(x, SArr) else None
            return r
        if isinstance(x, (Sym, Cplx)):
            return f(x, *rest)
        return conc(x, *rest)
    return g


def _csqrt(v):
    c = core.ctx()
    if c is not None and c.extra.get('concrete_sqrt'):
        return real_math.sqrt(v) if v >= 0 else builtins.float('nan')
    if isinstance(v, builtins.int) or (isinstance(v, builtins.float) and v == builtins.int(v) and v >= 0):
        r = real_math.isqrt(builtins.int(v))
        if r * r == v:
            return builtins.float(r)
        # irrational: keep exact by going through the symbolic sqrt
        return core.sym_sqrt(lift(v))
    if isinstance(v, builtins.float) and v >= 0:
        return core.sym_sqrt(lift(v))
    if v < 0:
        return builtins.float('nan')     # numpy semantics (RuntimeWarning), e.g. in dependency dry-runs on dummy data
    return real_math.sqrt(v)


sqrt = _map(lambda v: abs(v) if isinstance(v, Cplx) else core.sym_sqrt(v), _csqrt)
floor = _map(lambda v: Sym(z3.ToReal(core.sym_floor(v).e)) if v.kind == 'r' else v, lambda v: builtins.float(real_math.floor(v)))


ceil = _map(lambda v: Sym(z3.ToReal(-z3.ToInt(-v.as_real()))) if v.kind == 'r' else v, lambda v: builtins.float(real_math.ceil(v)))


def _rint(v):
    if v.kind != 'r':
        return v
    return Sym(z3.ToReal(core.sym_round(v).e))


rint = _map(_rint, lambda v: builtins.float(builtins.round(v)))
round_ = rint
absolute = _map(lambda v: abs(v), lambda v: builtins.abs(v))
conj = _map(lambda v: v.conjugate() if isinstance(v, Cplx) else v, lambda v: v.conjugate() if isinstance(v, complex) else v)
conjugate = conj
real = _map(lambda v: v.re if isinstance(v, Cplx) else v, lambda v: v.real)
imag = _map(lambda v: v.im if isinstance(v, Cplx) else 0.0, lambda v: v.imag)
sin = _map(lambda v: core.uf('sin', v), real_math.sin)
cos = _map(lambda v: core.uf('cos', v), real_math.cos)
import cmath as _cmath
exp = _map(lambda v: core.uf('exp', v), lambda v: _cmath.exp(v) if isinstance(v, complex) else real_math.exp(v))
log10 = _map(lambda v: core.uf('log10', v), real_math.log10)
log = _map(lambda v: core.uf('log', v), real_math.log)
sinc = _map(lambda v: core.uf('sinc', v), lambda v: 1.0 if v == 0 else real_math.sin(real_math.pi * v) / (real_math.pi * v))
isnan = _map(lambda v: False, lambda v: v != v)
isfinite = _map(lambda v: True, lambda v: real_math.isfinite(v))


def _minmax_arr(a, b, f):
    aa = real_np.ndarray.view(asarray(a), real_np.ndarray) if isinstance(a, real_np.ndarray) else real_np.array(a, dtype=object)
    bb = real_np.ndarray.view(asarray(b), real_np.ndarray) if isinstance(b, real_np.ndarray) else real_np.array(b, dtype=object)
    ra, rb = real_np.broadcast_arrays(aa, bb)
    like = a if isinstance(a, SArr) else b if isinstance(b, SArr) else asarray(a if isinstance(a, real_np.ndarray) else b)
    o = SArr(ra.shape, like.dtype, fill=None)
    for idx in real_np.ndindex(*ra.shape):
        x, y = ra[idx], rb[idx]
        x = x.item() if isinstance(x, real_np.generic) else x
        y = y.item() if isinstance(y, real_np.generic) else y
        real_np.ndarray.__setitem__(o, idx, f(x, y))
    return o


def minimum(a, b):
    if isinstance(a, real_np.ndarray) or isinstance(b, real_np.ndarray):
        return _minmax_arr(a, b, core.smin)
    return core.smin(a, b)


def maximum(a, b):
    if isinstance(a, real_np.ndarray) or isinstance(b, real_np.ndarray):
        return _minmax_arr(a, b, core.smax)
    return core.smax(a, b)


def isclose(a, b, rtol=1e-05, atol=1e-08):
    if isinstance(a, Sym) or isinstance(b, Sym):
        a, b = lift(a), lift(b)
        d = abs(a - b)
        return d <= atol + rtol * abs(b)
    return real_np.isclose(a, b, rtol, atol)


def concatenate(arrs, axis=0, **k):
    arrs = [asarray(a) for a in arrs]
    r = real_np.concatenate([real_np.ndarray.view(a, real_np.ndarray) for a in arrs], axis=axis).view(SArr)
    r._ldhint = arrs[0].dtype
    root_info(r, ld=r._ldhint)
    return r


def diff(a):
    a = asarray(a)
    return a[1:] - a[:-1]


def _truth(x):
    if isinstance(x, Sym):
        return x if x.kind == 'b' else (x != 0)
    return builtins.bool(x)


def _reduce_axis(a, axis, conj):
    """any/all along one axis -> bool SArr"""
    raw = real_np.moveaxis(real_np.ndarray.view(a, real_np.ndarray), axis, -1)
    o = SArr(raw.shape[:-1], T('?'), fill=None)
    for idx in real_np.ndindex(*raw.shape[:-1]):
        vals = [_truth(x) for x in raw[idx]]
        if not builtins.any(isinstance(x, Sym) for x in vals):
            r = builtins.all(vals) if conj else builtins.any(vals)
        else:
            r = Sym(z3.simplify((z3.And if conj else z3.Or)([core._b(lift(x)) for x in vals])))
        real_np.ndarray.__setitem__(o, idx, r)
    return o


def all(a, axis=None):
    a = asarray(a)
    if axis is not None:
        return _reduce_axis(a, axis, True)
    vals = [x for x in real_np.ndarray.view(a, real_np.ndarray).flat]
    if not builtins.any(isinstance(x, Sym) for x in vals):
        return builtins.all(vals)
    return Sym(z3.simplify(z3.And([core._b(lift(x)) for x in vals])))


def any(a, axis=None):
    a = asarray(a)
    if axis is not None:
        return _reduce_axis(a, axis, False)
    vals = [x for x in real_np.ndarray.view(a, real_np.ndarray).flat]
    if not builtins.any(isinstance(x, Sym) for x in vals):
        return builtins.any(vals)
    return Sym(z3.simplify(z3.Or([core._b(lift(x)) for x in vals])))


def argsort(a, **k):
    """Contract stub: a fresh permutation p with a[p] non-decreasing (stability is not part
    of numpy's default contract).  Constraints are added before concretising."""
    c = core.ctx()
    a = asarray(a)
    n = len(a)
    vals = [real_np.ndarray.__getitem__(a, i) for i in range(n)]
    if not builtins.any(isinstance(v, Sym) for v in vals):
        return as_sarr(real_np.argsort(real_np.array(vals), kind='stable'))
    c.assumptions.add('argsort: any permutation that sorts its input (contract stub)')
    perm = [c.fresh(z3.IntSort(), 'perm') for _ in range(n)]
    for p in perm:
        c.add(z3.And(p >= 0, p < n))
    if n > 1:
        c.add(z3.Distinct(*perm))

    def at(p):
        e = lift(vals[-1])
        for k in range(n - 2, -1, -1):
            e = ite(p == k, vals[k], e)
        return e
    for x, y in zip(perm[:-1], perm[1:]):
        c.add(core._b(at(x) <= at(y)))
    conc = [c.concretize(p, what='argsort permutation') for p in perm]
    return as_sarr(real_np.array(conc, dtype=real_np.int64))


def searchsorted(a, v, side='left'):
    a = asarray(a)
    vals = [x for x in real_np.ndarray.view(a, real_np.ndarray).flat]
    if isinstance(v, real_np.ndarray):
        # an array of needles: element by element (same contract)
        src = real_np.ndarray.view(asarray(v), real_np.ndarray)
        o = real_np.empty(src.shape, dtype=object)
        for idx in real_np.ndindex(*src.shape):
            o[idx] = searchsorted(a, src[idx], side)
        return as_sarr(o, 'i8')
    if not builtins.any(isinstance(x, Sym) for x in vals) and not isinstance(v, Sym):
        return builtins.int(real_np.searchsorted(real_np.array(vals), v, side))
    core.ctx().assumptions.add('searchsorted: returns #{a_j < v} (left) on sorted input (contract stub)')
    tot = lift(0)
    for x in vals:
        tot = tot + ite((lift(x) < lift(v)) if side == 'left' else (lift(x) <= lift(v)), 1, 0)
    return tot


def _binary(op):
    def f(a, b, out=None, **k):
        r = op(asarray(a) if isinstance(a, real_np.ndarray) else a, asarray(b) if isinstance(b, real_np.ndarray) else b)
        if out is not None:
            out[...] = r
            return out
        return r
    return f


multiply = _binary(lambda a, b: a * b)
add = _binary(lambda a, b: a + b)
subtract = _binary(lambda a, b: a - b)
divide = _binary(lambda a, b: a / b)
true_divide = divide
bitwise_and = _binary(lambda a, b: a & b)
bitwise_or = _binary(lambda a, b: a | b)
bitwise_xor = _binary(lambda a, b: a ^ b)
right_shift = _binary(lambda a, b: a >> b)
left_shift = _binary(lambda a, b: a << b)


def reciprocal(a, out=None, **k):
    r = 1.0 / (asarray(a) if isinstance(a, real_np.ndarray) else a)
    if out is not None:
        out[...] = r
        return out
    return r


def isscalar(x):
    return isinstance(x, (Sym, builtins.int, builtins.float, real_np.number))


def shape(a):
    return asarray(a).shape


def dtype(x):
    return as_caster(x)


def issubdtype(a, b):
    return real_np.issubdtype(as_npdtype(a), b if not isinstance(b, T) else b.dt)


def may_share_memory(a, b):
    return real_np.may_share_memory(a, b)


def atleast_1d(a):
    a = asarray(a)
    return a.reshape(1) if a.ndim == 0 else a


def where(c, a=None, b=None):
    if a is None:
        c = asarray(c)
        cc = real_np.array([builtins.bool(x) for x in real_np.ndarray.view(c, real_np.ndarray).flat]).reshape(c.shape)
        return real_np.where(cc)
    c, a, b = asarray(c), asarray(a), asarray(b)
    dt = real_np.result_type(as_npdtype(a.dtype), as_npdtype(b.dtype))
    rc, ra, rb = real_np.broadcast_arrays(*[real_np.ndarray.view(x, real_np.ndarray) for x in (c, a, b)])
    o = SArr(rc.shape, T(dt), fill=None)
    for idx in real_np.ndindex(*rc.shape):
        t = _truth(rc[idx])
        v = core.ite(t, ra[idx], rb[idx]) if isinstance(t, Sym) else (ra[idx] if t else rb[idx])
        real_np.ndarray.__setitem__(o, idx, cast_value(v, dt))
    return o


def atleast_2d(a):
    a = asarray(a)
    return a.reshape(1, 1) if a.ndim == 0 else a.reshape(1, -1) if a.ndim == 1 else a


class _Namespace:
    """Module-like object; unknown attributes are a ModelGap."""

    def __init__(self, name, d):
        self.__dict__.update(d)
        self._name = name

    def __getattr__(self, k):
        raise ModelGap(f'{self._name}.{k} is not modelled')


def make_np():
    d = {}
    for nm in ['int8', 'int16', 'int32', 'int64', 'uint8', 'uint16', 'uint32', 'uint64', 'float32', 'float64',
               'complex64', 'complex128', 'bool_', 'ubyte', 'intp', 'uintp']:
        d[nm] = T(getattr(real_np, nm))
    d['bool8'] = d['bool_']
    g = globals()
    for nm in ['empty', 'full', 'zeros', 'ones', 'empty_like', 'zeros_like', 'ones_like', 'asarray', 'asanyarray', 'array',
               'ascontiguousarray', 'arange', 'linspace', 'cumsum', 'sum', 'sqrt', 'floor', 'ceil', 'rint', 'round_', 'absolute',
               'conj', 'conjugate', 'real', 'imag', 'sin', 'cos', 'sinc', 'exp', 'log10', 'log', 'isnan', 'isfinite', 'minimum',
               'maximum', 'isclose', 'concatenate', 'diff', 'all', 'any', 'argsort', 'searchsorted', 'isscalar', 'shape',
               'dtype', 'issubdtype', 'may_share_memory', 'atleast_1d', 'atleast_2d', 'where', 'multiply', 'add', 'subtract', 'divide', 'true_divide', 'reciprocal', 'bitwise_and', 'bitwise_or', 'bitwise_xor', 'right_shift', 'left_shift']:
        d[nm] = g[nm]
    d['abs'] = absolute
    d['round'] = rint
    d['pi'] = real_np.pi
    d['nan'] = real_np.nan
    d['inf'] = real_np.inf
    d['newaxis'] = None
    d['ndarray'] = real_np.ndarray
    d['integer'] = real_np.integer
    d['floating'] = real_np.floating
    d['number'] = real_np.number
    d['ndindex'] = real_np.ndindex
    d['s_'] = real_np.s_
    d['broadcast_to'] = lambda a, shape: as_sarr(real_np.broadcast_to(real_np.ndarray.view(asarray(a), real_np.ndarray), shape))
    d['geomspace'] = lambda a, b, n: as_sarr(real_np.geomspace(a, b, n))
    d['iinfo'] = lambda t: real_np.iinfo(as_npdtype(t))
    d['finfo'] = lambda t: real_np.finfo(as_npdtype(t))
    return _Namespace('np', d)


class MathShim:
    pi = real_math.pi
    e = real_math.e

    @staticmethod
    def _f(name, conc):
        def g(x):
            if isinstance(x, Sym):
                return core.uf(name, x)
            return conc(x)
        return staticmethod(g)

    def __getattr__(self, k):
        raise ModelGap(f'math.{k} is not modelled')


for _n in ['erf', 'erfc', 'exp', 'log', 'log10', 'sin', 'cos']:
    setattr(MathShim, _n, MathShim._f(_n, getattr(real_math, _n)))
MathShim.sqrt = staticmethod(lambda x: core.sym_sqrt(x) if isinstance(x, Sym) else real_math.sqrt(x))
MathShim.floor = staticmethod(lambda x: core.sym_floor(x) if isinstance(x, Sym) else real_math.floor(x))
MathShim.isnan = staticmethod(lambda x: False if isinstance(x, Sym) else real_math.isnan(x))
