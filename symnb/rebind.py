"""symnb.rebind -- run /repo's real function bodies on symbolic values.

``rebind_module(mod)`` returns a namespace in which every numba dispatcher of ``mod`` is
replaced by a plain function built from ``dispatcher.py_func.__code__`` whose globals are a
copy of the module's globals with np / numba / math / a few builtins re-bound to the shims.
Function bodies are never copied or edited: the code objects are /repo's own.
"""
import builtins
import hashlib
import inspect
import types
import numpy as real_np
import z3
from . import core, npshim, arrays
from .core import Sym, ModelGap


# ----------------------------------------------------------------------------------------
# numba shim (prange / thread ids / race monitor)

class NumbaShim:
    def __init__(self, num_threads=4):
        self.config = types.SimpleNamespace(NUMBA_NUM_THREADS=num_threads)
        self._nthreads = num_threads
        self._prange_id = 0
        self.typed = types.SimpleNamespace(Dict=types.SimpleNamespace(empty=lambda *a, **k: {}),
                                           List=lambda *a: list(*a))
        import numba as real_numba
        self.types = real_numba.types
        self.int64 = real_numba.int64
        self.float32 = real_numba.float32
        self.float64 = real_numba.float64

    def reset(self, num_threads):
        self.config.NUMBA_NUM_THREADS = num_threads
        self._nthreads = num_threads
        self._prange_id = 0

    def set_num_threads(self, n):
        n = arrays._cint(n, 'thread count')
        if n < 1 or n > self.config.NUMBA_NUM_THREADS:
            raise ValueError('The number of threads must be between 1 and %d' % self.config.NUMBA_NUM_THREADS)
        self._nthreads = n

    def get_num_threads(self):
        return self._nthreads

    def get_thread_id(self):
        c = core.ctx()
        if c.tag is None or (isinstance(self._nthreads, int) and self._nthreads == 1):
            return 0
        tids = c.extra.setdefault('tids', {})
        if c.tag not in tids:
            t = c.fresh(z3.IntSort(), 'tid')
            c.add(z3.And(t >= 0, t < self._nthreads))
            tids[c.tag] = t
            c.extra.setdefault('merge_ids', set()).add(t.get_id())
        return Sym(tids[c.tag])

    def prange(self, *a):
        c = core.ctx()
        r = core.srange(*a)
        if c.tag is not None:       # nested prange is serial in numba
            yield from r
            return
        self._prange_id += 1
        pid = self._prange_id
        start = len(c.access_log)
        for i in r:
            c.tag = (pid, i)
            yield i
        c.tag = None
        if c.log_access:
            race_check(c, c.access_log[start:], self._nthreads)
            del c.access_log[start:]

    def njit(self, *a, **k):
        if a and callable(a[0]) and not k:
            return a[0]
        return lambda f: f

    jit = njit

    def vectorize(self, *a, **k):
        return self.njit(*a, **k)

    def __getattr__(self, k):
        raise ModelGap(f'numba.{k} is not modelled')


def race_check(c, log, nthreads):
    """Two iterations of one prange that may run on different threads must not touch the
    same cell with at least one write.  Iterations are assigned to threads by the
    scheduler: any assignment with tid_a != tid_b is possible unless the code itself
    indexes by thread id (then the guards contradict tid_a != tid_b)."""
    if nthreads < 2:
        return
    bycell = {}
    for ent in log:
        tag, arr, cell, kind, guard = ent
        bycell.setdefault((arr, cell), []).append(ent)
    tids = c.extra.get('tids', {})
    for (arr, cell), ents in bycell.items():
        its = {e[0] for e in ents}
        if len(its) < 2 or not any(e[3] == 'w' for e in ents):
            continue
        seen = set()
        for x in ents:
            for y in ents:
                if x[0] >= y[0] or (x[3] == 'r' and y[3] == 'r'):
                    continue
                gx, gy = x[4], y[4]
                sig = (x[0], y[0], x[3], y[3], None if gx is None else gx.get_id(), None if gy is None else gy.get_id())
                if sig in seen:
                    continue
                seen.add(sig)
                cond = []
                if gx is not None:
                    cond.append(gx)
                if gy is not None:
                    cond.append(gy)
                ta, tb = tids.get(x[0]), tids.get(y[0])
                if ta is not None and tb is not None:
                    cond.append(ta != tb)
                if c.report('race', f'iterations {x[0][1]} and {y[0][1]} of one prange both access {arr}[cell {cell}] '
                                    f'({x[3]}/{y[3]})', key=f'race:{arr}', cond=z3.And(cond) if cond else z3.BoolVal(True),
                            info=dict(array=arr, cell=cell, iters=[x[0][1], y[0][1]])):
                    return


# ----------------------------------------------------------------------------------------
# rebinding

NB = NumbaShim()
NP = npshim.make_np()
MATH = npshim.MathShim()

_NPTYPE_TO_SHIM = {getattr(real_np, n): getattr(NP, n) for n in
                   ['int8', 'int16', 'int32', 'int64', 'uint8', 'uint16', 'uint32', 'uint64', 'float32', 'float64',
                    'complex64', 'complex128', 'bool_']}


def base_overrides():
    return {
        'np': NP, 'numpy': NP, 'numba': NB, 'nb': NB, 'math': MATH,
        'int': arrays.sint, 'float': arrays.sfloat, 'min': core.smin, 'max': core.smax,
        'range': core.srange, 'round': core.sround,
    }


def _is_dispatcher(v):
    return hasattr(v, 'py_func') and callable(getattr(v, 'py_func', None))


def pyfunc_of(f):
    """The plain Python function behind a numba dispatcher / vectorize DUFunc / method."""
    if _is_dispatcher(f):
        return f.py_func
    if type(f).__name__ == 'DUFunc':    # numba.vectorize
        return f._dispatcher.py_func
    return getattr(f, '__func__', f)


def _fix_defaults(d):
    if d is None:
        return None
    return tuple(_NPTYPE_TO_SHIM.get(x, x) if isinstance(x, type) else x for x in d)


def rebind_function(f, G):
    """f: plain function or numba dispatcher/vectorize object.  G: globals dict to run in."""
    f = pyfunc_of(f)
    g = types.FunctionType(f.__code__, G, f.__name__, _fix_defaults(f.__defaults__), f.__closure__)
    if f.__kwdefaults__:
        g.__kwdefaults__ = {k: _NPTYPE_TO_SHIM.get(v, v) if isinstance(v, type) else v for k, v in f.__kwdefaults__.items()}
    g.__qualname__ = f.__qualname__
    g.__doc__ = f.__doc__
    g.__module__ = f.__module__
    return g


class Rebound:
    """Namespace mirroring a /repo module with every function re-bound."""

    def __init__(self, mod, overrides=None, extra=None):
        self._mod = mod
        G = dict(mod.__dict__)
        G.update(base_overrides())
        if overrides:
            G.update(overrides)
        self._G = G
        self._funcs = {}
        for k, v in list(mod.__dict__.items()):
            if k in (overrides or {}):
                continue
            if _is_dispatcher(v) or type(v).__name__ == 'DUFunc' or (
                    isinstance(v, types.FunctionType) and v.__module__ == mod.__name__):
                g = rebind_function(v, G)
                G[k] = g
                self._funcs[k] = g
            elif isinstance(v, type) and v.__module__ == mod.__name__:
                G[k] = self._rebind_class(v)
        if extra:
            G.update(extra)

    def _rebind_class(self, cls):
        ns = {}
        for k, v in cls.__dict__.items():
            if isinstance(v, staticmethod):
                f = v.__func__
                if _is_dispatcher(f) or isinstance(f, types.FunctionType):
                    ns[k] = staticmethod(rebind_function(f, self._G))
            elif isinstance(v, classmethod):
                ns[k] = classmethod(rebind_function(v.__func__, self._G))
            elif isinstance(v, types.FunctionType):
                ns[k] = rebind_function(v, self._G)
            elif isinstance(v, property):
                ns[k] = property(*(rebind_function(x, self._G) if x else None for x in (v.fget, v.fset, v.fdel)))
            elif _is_dispatcher(v):
                ns[k] = staticmethod(rebind_function(v, self._G))
        new = type(cls.__name__, (cls,), ns)
        new.__module__ = cls.__module__
        new.__qualname__ = cls.__qualname__
        return new

    def __getattr__(self, k):
        try:
            return self._G[k]
        except KeyError:
            raise AttributeError(k)

    def set_global(self, k, v):
        self._G[k] = v


def source_hash(*objs):
    """sha256 over the source text of the real functions that a harness executes."""
    h = hashlib.sha256()
    names = []
    for o in objs:
        f = pyfunc_of(o)
        try:
            src = inspect.getsource(f)
        except Exception:
            src = repr(f.__code__.co_code)
        h.update(src.encode())
        names.append(f'{f.__module__}.{f.__qualname__}')
    return names, h.hexdigest()[:16]
