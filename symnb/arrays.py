"""symnb.arrays -- numpy object-array subclass with a logical dtype and memory monitors.

Shapes are always concrete; cell contents are python numbers or core.Sym terms.  Real numpy
does all structural work (views, reshape, .T, broadcasting, fancy indexing).  On top:
store-casts to the logical dtype, an out-of-bounds monitor with numba's semantics (negative
indices wrap, nothing else is checked at run time), uninitialised-cell tracking, per-cell
write counts and an access log for the prange race monitor.
"""
import builtins
import numpy as real_np
import z3
from . import core
from .core import Sym, Cplx, lift, ModelGap, StopPath


# ----------------------------------------------------------------------------------------
# dtypes

class T:
    """Caster / dtype specifier standing in for ``np.float32`` & co."""

    def __init__(self, dt):
        self.dt = real_np.dtype(dt)
        self.__name__ = self.dt.name

    def __call__(self, x=0):
        if isinstance(x, real_np.ndarray):
            return as_sarr(x).astype(self)
        return cast_value(x, self.dt)

    def __repr__(self):
        return f'T({self.dt})'

    def __eq__(self, o):
        try:
            return self.dt == as_npdtype(o)
        except Exception:
            return False

    def __hash__(self):
        return hash(self.dt)

    @property
    def itemsize(self):
        return self.dt.itemsize

    @property
    def kind(self):
        return self.dt.kind

    @property
    def type(self):
        return self

    @property
    def name(self):
        return self.dt.name

    @property
    def fields(self):
        return self.dt.fields

    @property
    def names(self):
        return self.dt.names

    @property
    def str(self):
        return self.dt.str

    @property
    def descr(self):
        return self.dt.descr

    @property
    def shape(self):
        return self.dt.shape

    @property
    def subdtype(self):
        return self.dt.subdtype

    @property
    def base(self):
        return T(self.dt.base)

    @property
    def char(self):
        return self.dt.char

    @property
    def num(self):
        return self.dt.num

    def newbyteorder(self, *a):
        return self


LD = T   # the object returned by SArr.dtype is the same caster object


class _IntMeta(type):
    def __instancecheck__(cls, x):
        return isinstance(x, builtins.int)

    def __call__(cls, x=0, *a):
        if a:
            return builtins.int(x, *a)
        return core.sint(x)


class sint(metaclass=_IntMeta):
    """builtins.int shadow usable both as int(x) and in isinstance(x, int)."""


class _FloatMeta(type):
    def __instancecheck__(cls, x):
        return isinstance(x, builtins.float)

    def __call__(cls, x=0.0):
        return core.sfloat(x)


class sfloat(metaclass=_FloatMeta):
    """builtins.float shadow."""


def as_npdtype(t):
    if isinstance(t, T):
        return t.dt
    if t is sint or t is builtins.int:
        return real_np.dtype('i8')
    if t is sfloat or t is builtins.float:
        return real_np.dtype('f8')
    if t is builtins.bool:
        return real_np.dtype('?')
    if t is None:
        return real_np.dtype('f8')
    return real_np.dtype(t)


def as_caster(t):
    return t if isinstance(t, T) else T(as_npdtype(t))


_RND32 = z3.Function('rnd32', z3.RealSort(), z3.RealSort())


def cast_value(x, dt):
    """numba's conversion of a scalar to dtype ``dt`` (real model for floats, mathematical
    ints for Int-sorted terms, exact width/sign handling for bit-vector terms)."""
    k = dt.kind
    if x is UNINIT:
        return x
    if isinstance(x, Cplx):
        if k == 'c':
            return x
        raise ModelGap('complex stored into non-complex array')
    if isinstance(x, Sym):
        xk = x.kind
        if k == 'f':
            v = x if xk == 'r' else Sym(z3.simplify(x.as_real()))
            c = core.ctx()
            if xk == 'i' and c is not None and c.extra.get('int_to_float_monitor') and not z3.is_int_value(x.e):
                # opt-in: an integer (an id, say) stored into a float array survives only up to 2^53 (float64) / 2^24 (float32)
                lim = 1 << (53 if dt.itemsize >= 8 else 24)
                big = z3.Or(x.e > lim, x.e < -lim)
                if c.feasible(big):
                    c.report('violation', f'an integer that can exceed 2^{53 if dt.itemsize >= 8 else 24} in magnitude is stored into a {dt.name} array at {_site()}: '
                             f'distinct integers collapse to the same float', key=f'intfloat:{dt.name}', cond=big, info=dict(site=_site()))
            if dt.itemsize == 4 and c is not None and c.extra.get('mark_precision') and not z3.is_rational_value(v.e):
                # opt-in precision marker: a value that passes through float32 is wrapped in an uninterpreted rounding
                # function, so that "computed in float32" and "computed in float64" are different terms
                if z3.is_app(v.e) and v.e.decl().eq(_RND32):
                    return v            # rounding is idempotent
                return Sym(_RND32(v.e))
            return v
        if k in 'iu':
            if xk == 'r':
                return core.sym_trunc(x)
            if xk == 'i':
                return x
            if xk == 'b':
                return Sym(x.as_int())
            w = dt.itemsize * 8
            e, sw = x.e, x.e.size()
            if sw > w:
                e = z3.Extract(w - 1, 0, e)
            elif sw < w:
                e = z3.SignExt(w - sw, e) if x.sg else z3.ZeroExt(w - sw, e)
            return Sym(z3.simplify(e), k == 'i')
        if k == 'b':
            return x if xk == 'b' else Sym(z3.simplify(x.as_bool()))
        if k == 'c':
            return Cplx(x, 0.0)
        if k == 'O':
            return x
        raise ModelGap(f'cast to {dt}')
    if isinstance(x, (complex, real_np.complexfloating)):
        if k == 'c':
            return Cplx(builtins.float(x.real), builtins.float(x.imag))
        raise ModelGap('complex stored into non-complex array')
    if k == 'f':
        return builtins.float(x)
    if k in 'iu':
        return builtins.int(x)
    if k == 'b':
        return builtins.bool(x)
    if k == 'c':
        return Cplx(builtins.float(x), 0.0)
    return x


# ----------------------------------------------------------------------------------------
# uninitialised cells

class _Uninit:
    __array_ufunc__ = None
    __slots__ = ()

    def __repr__(self):
        return 'UNINIT'

    def _use(self, *a, **k):
        c = core.ctx()
        if c is not None:
            c.report('uninit', 'read of an uninitialised array cell', key='uninit')
        raise StopPath()

    __add__ = __radd__ = __sub__ = __rsub__ = __mul__ = __rmul__ = __truediv__ = __rtruediv__ = _use
    __floordiv__ = __rfloordiv__ = __mod__ = __rmod__ = __pow__ = __rpow__ = _use
    __and__ = __rand__ = __or__ = __ror__ = __xor__ = __rxor__ = __lshift__ = __rshift__ = _use
    __lt__ = __le__ = __gt__ = __ge__ = __neg__ = __abs__ = __bool__ = __index__ = __int__ = __float__ = _use
    __round__ = _use

    def __eq__(self, o):
        return self is o

    def __hash__(self):
        return 1


UNINIT = _Uninit()


# ----------------------------------------------------------------------------------------
# registry of root buffers (shadow ids, write counts, names)

class RootInfo:
    __slots__ = ('root', 'ids', 'wcount', 'name', 'addr', 'nbytes', 'ld')

    def __init__(self, root, name, ld):
        self.root = root
        self.addr = root.__array_interface__['data'][0]
        self.nbytes = max(root.size, 1) * 8
        self.ids = real_np.arange(max(root.size, 1), dtype=real_np.int64)
        self.wcount = real_np.zeros(max(root.size, 1), dtype=real_np.int64)
        self.name = name
        self.ld = ld


REG = {}
_names = [0]


def reset_registry():
    REG.clear()
    _names[0] = 0


def _root(a):
    while isinstance(a.base, real_np.ndarray):
        a = a.base
    return a


def root_info(a, create=True, name=None, ld=None):
    r = _root(a)
    addr = r.__array_interface__['data'][0]
    info = REG.get(addr)
    if info is None or info.root is not r:
        if not create:
            return None
        _names[0] += 1
        info = RootInfo(r, name or f'arr{_names[0]}', ld)
        REG[addr] = info
    return info


def cells_of(a, idx=None):
    """Root-buffer cell ids addressed by a[idx] (any numpy index).  Object arrays and int64
    arrays share an item size of 8 bytes, so a shadow int64 view with a's strides maps
    elements to cells."""
    info = root_info(a)
    if a.size == 0:
        return info, real_np.zeros(0, dtype=real_np.int64)
    off = a.__array_interface__['data'][0] - info.addr
    sh = real_np.ndarray(a.shape, dtype=real_np.int64, buffer=info.ids, offset=off, strides=a.strides)
    if idx is not None:
        sh = sh[idx]
    return info, real_np.asarray(sh).ravel()


# ----------------------------------------------------------------------------------------
# the array class

def _oob(c, what, cond, info):
    """Report an out-of-bounds access (cond: z3 condition under which it happens, or None
    when it is certain on this path)."""
    return c.report('oob', what, key='oob:' + info.get('site', what), cond=cond, info=info)


class SArr(real_np.ndarray):
    _ldhint = None
    merge_cap = 0   # >0: symbolic indices with at most this many feasible values are merged

    def __new__(cls, shape, dt, fill=UNINIT, name=None):
        if isinstance(shape, (list, tuple)):
            shape = tuple(_cint(s, 'array length') for s in shape)
        else:
            shape = (_cint(shape, 'array length'),)
        for s in shape:
            if s < 0:
                raise ValueError('negative dimensions are not allowed')
        o = real_np.empty(shape, dtype=object).view(cls)
        ld = as_caster(dt)
        o._ldhint = ld
        if fill is not None:
            real_np.ndarray.fill(o, fill)
        root_info(o, name=name, ld=ld)
        return o

    def __array_finalize__(self, obj):
        if obj is not None:
            self._ldhint = getattr(obj, '_ldhint', None)

    # -- logical dtype
    @property
    def dtype(self):
        if self._ldhint is not None:
            return self._ldhint
        info = root_info(self, create=False)
        if info is not None and info.ld is not None:
            return info.ld
        return T('O')

    @property
    def itemsize(self):
        return self.dtype.itemsize

    @property
    def nbytes(self):
        return self.size * self.dtype.itemsize

    def _part(self, which):
        """real / imaginary parts with numpy's dtype rule (complex64 -> float32, complex128 -> float64); a copy, not a view"""
        dt = self.dtype.dt
        if dt.kind != 'c':
            if which == 'real':
                return self
            o = SArr(self.shape, self.dtype, fill=None)
            real_np.ndarray.fill(o, cast_value(0, dt))
            return o
        o = SArr(self.shape, 'f4' if dt.itemsize == 8 else 'f8', fill=None)
        src = real_np.ndarray.view(self, real_np.ndarray)
        for idx in real_np.ndindex(*self.shape):
            v = src[idx]
            if v is UNINIT:
                real_np.ndarray.__setitem__(o, idx, v)
            else:
                v = core.Cplx.of(v)
                real_np.ndarray.__setitem__(o, idx, v.re if which == 'real' else v.im)
        return o

    @property
    def real(self):
        return self._part('real')

    @property
    def imag(self):
        return self._part('imag')

    def astype(self, t, **k):
        t = as_caster(t)
        if k.get('copy') is False and t.dt == self.dtype.dt:
            return self          # numpy returns the array itself: later in-place operations alias the caller's data
        o = SArr(self.shape, t, fill=None)
        src = real_np.ndarray.view(self, real_np.ndarray)
        for idx in real_np.ndindex(*self.shape):
            real_np.ndarray.__setitem__(o, idx, cast_value(src[idx], t.dt))
        return o

    def copy(self, order='C'):
        o = real_np.ndarray.copy(self, order)
        o._ldhint = self.dtype
        root_info(o, ld=self.dtype)
        return o

    def view(self, *a, **k):
        if not a and not k:
            return real_np.ndarray.view(self)
        if a and isinstance(a[0], type) and issubclass(a[0], real_np.ndarray):
            return real_np.ndarray.view(self, *a, **k)
        t = as_caster(a[0] if a else k.get('dtype'))
        if t.dt.itemsize == self.dtype.itemsize:
            # same-width reinterpretation: only used for signedness changes of bit-vector data
            o = real_np.ndarray.view(self)
            out = SArr(self.shape, t, fill=None)
            for idx in real_np.ndindex(*self.shape):
                v = real_np.ndarray.__getitem__(o, idx)
                if isinstance(v, Sym) and v.kind == 'v':
                    v = Sym(v.e, t.dt.kind == 'i')
                elif isinstance(v, Sym) or t.dt.kind != self.dtype.kind:
                    raise ModelGap('view() reinterpretation of non bit-vector data')
                real_np.ndarray.__setitem__(out, idx, v)
            return out
        raise ModelGap(f'view({t}) changes the item size')

    # -- index handling
    def _ci(self, i, write):
        c = core.ctx()
        if not isinstance(i, tuple):
            i = (i,)
        out = []
        ax = 0
        for t in i:
            if t is Ellipsis:
                out.append(t)
                ax = self.ndim - (len(i) - len(out))
                continue
            if t is None:
                out.append(t)
                continue
            if isinstance(t, slice):
                out.append(slice(*(_cint(u, 'slice bound') if u is not None else None
                                   for u in (t.start, t.stop, t.step))))
                ax += 1
                continue
            if isinstance(t, real_np.ndarray):
                if isinstance(t, SArr):
                    t = real_np.ndarray.view(t, real_np.ndarray)
                if t.dtype == object:
                    flat = [x for x in t.flat]
                    if flat and all(isinstance(x, (Sym, bool, real_np.bool_)) and (not isinstance(x, Sym) or x.kind == 'b') for x in flat):
                        t = real_np.array([builtins.bool(x) for x in flat], dtype=bool).reshape(t.shape)
                    else:
                        t = real_np.array([_cint(x, 'fancy index') for x in flat], dtype=real_np.int64).reshape(t.shape)
                else:
                    t = real_np.asarray(t)
                if t.dtype == bool:
                    ax += t.ndim
                else:
                    n = self.shape[ax] if ax < self.ndim else 0
                    if t.size and (t.min() < -n or t.max() >= n):
                        _oob(c, f'fancy index out of bounds for axis {ax} of length {n}', None,
                             dict(site=_site(), axis=ax, length=n, array=self._name()))
                        raise StopPath()
                    ax += 1
                out.append(t)
                continue
            if isinstance(t, (list,)):
                out.append(t)
                ax += 1
                continue
            # scalar index
            if ax >= self.ndim:
                raise IndexError('too many indices for array')
            n = self.shape[ax]
            if isinstance(t, Sym):
                if t.kind == 'b':
                    raise ModelGap('boolean scalar index')
                e = z3.simplify(t.as_int())
                hit = c.extra.get('known', {}).get(e.get_id())
                if hit is not None and -n <= hit[1] < n:
                    out.append(hit[1])
                    ax += 1
                    continue
                site = _site()
                bad = z3.Or(e < -n, e >= n)
                if c.feasible(bad):
                    if _oob(c, f'index out of bounds for axis {ax} of length {n}', bad,
                            dict(site=site, axis=ax, length=n, array=self._name(), write=write)):
                        pass
                c.assume(z3.Not(bad))
                t = c.concretize(e, what=f'index on axis {ax} at {site}')
            else:
                t = builtins.int(t)
                if (t < -n or t >= n) and not _called_from_repo():
                    # library code (astropy, numpy) probing an array: ordinary Python semantics
                    raise IndexError(f'index {t} is out of bounds for axis {ax} with size {n}')
                if t < -n or t >= n:
                    _oob(c, f'index {t} out of bounds for axis {ax} of length {n}', None,
                         dict(site=_site(), axis=ax, length=n, array=self._name(), write=write, index=t))
                    raise StopPath()
            out.append(t)
            ax += 1
        return tuple(out)

    def _name(self):
        info = root_info(self, create=False)
        return info.name if info else '?'

    def _log(self, idx, kind):
        c = core.ctx()
        if c is None:
            return
        if kind == 'w' or c.log_access:
            info, cells = cells_of(self, idx)
            if kind == 'w':
                info.wcount[cells] += 1
            if c.log_access and c.tag is not None:
                for cell in cells.tolist():
                    c.access_log.append((c.tag, info.name, cell, kind, None))

    def __getitem__(self, i):
        if core.ctx() is None:
            return real_np.ndarray.__getitem__(self, i)
        mi = _merge_index(self, i)
        if mi is not None:
            return _merged_read(self, *mi)
        i = self._ci(i, False)
        r = real_np.ndarray.__getitem__(self, i)
        if core.ctx().log_access and core.ctx().tag is not None:
            self._log(i, 'r')
        if isinstance(r, real_np.ndarray) and not isinstance(r, SArr):
            r = r.view(SArr)
            r._ldhint = self.dtype
        return r

    def __setitem__(self, i, v):
        if core.ctx() is None:
            return real_np.ndarray.__setitem__(self, i, v)
        dt = self.dtype.dt
        if isinstance(v, real_np.ndarray):
            src = real_np.ndarray.view(v, real_np.ndarray)
            v = real_np.empty(src.shape, dtype=object)
            for idx in real_np.ndindex(*src.shape):
                x = src[idx]
                v[idx] = cast_value(x.item() if isinstance(x, real_np.generic) else x, dt)
        elif isinstance(v, (list, tuple)):
            v = real_np.array([cast_value(x, dt) for x in v], dtype=object) if v and not isinstance(v[0], (list, tuple)) else v
        else:
            v = cast_value(v, dt)
        mi = _merge_index(self, i)
        if mi is not None:
            return _merged_write(self, *mi, v)
        i = self._ci(i, True)
        self._log(i, 'w')
        real_np.ndarray.__setitem__(self, i, v)

    # comparisons must stay elementwise objects (the default '?' loop would call bool())
    def __lt__(self, o): return _cmp(real_np.less, self, o)
    def __le__(self, o): return _cmp(real_np.less_equal, self, o)
    def __gt__(self, o): return _cmp(real_np.greater, self, o)
    def __ge__(self, o): return _cmp(real_np.greater_equal, self, o)
    def __eq__(self, o): return _cmp(real_np.equal, self, o)
    def __ne__(self, o): return _cmp(real_np.not_equal, self, o)
    __hash__ = None

    def argsort(self, *a, **k):
        from .npshim import argsort
        return argsort(self)

    def sum(self, axis=None, **k):
        r = real_np.ndarray.sum(real_np.ndarray.view(self, real_np.ndarray), axis=axis)
        if isinstance(r, real_np.ndarray):
            r = r.view(SArr)
            r._ldhint = self.dtype
            root_info(r, ld=self.dtype)
        return r

    def resize(self, new_shape, refcheck=True):
        """In-place shrink of the leading axis (ndarray.resize on an owning array).  The object
        buffer behind an SArr is a view, which numpy refuses to resize; shrinking is modelled as a
        no-op (callers keep using slices of the original buffer), growing is not modelled."""
        new_shape = tuple(new_shape) if not isinstance(new_shape, int) else (new_shape,)
        if len(new_shape) != self.ndim or any(a > b for a, b in zip(new_shape, self.shape)):
            raise ModelGap('ndarray.resize that grows an array')

    # -- opt-in numpy (not numba) integer-array semantics: an array of a narrow integer dtype combined with a python int
    #    or with another integer array keeps numpy's result dtype and WRAPS in it (ctx.extra['numpy_int_semantics'])
    def _npint(self, o, name):
        c = core.ctx()
        if c is None or not c.extra.get('numpy_int_semantics'):
            return NotImplemented
        dt = self.dtype.dt
        if dt.kind not in 'iu':
            return NotImplemented
        if isinstance(o, SArr):
            if o.dtype.dt.kind not in 'iu':
                return NotImplemented
            rdt = real_np.result_type(dt, o.dtype.dt)
        elif isinstance(o, (bool, int, real_np.integer)) or (isinstance(o, Sym) and o.kind in 'ib'):
            rdt = dt
        else:
            return NotImplemented
        raw = getattr(real_np.ndarray, name)(real_np.ndarray.view(self, real_np.ndarray), real_np.ndarray.view(o, real_np.ndarray) if isinstance(o, SArr) else o)
        out = SArr(raw.shape, rdt, fill=None)
        for idx in real_np.ndindex(*raw.shape):
            real_np.ndarray.__setitem__(out, idx, np_int_wrap(raw[idx], rdt, name.strip('_')))
        return out

    def __sub__(self, o):
        r = self._npint(o, '__sub__')
        return r if r is not NotImplemented else real_np.ndarray.__sub__(self, o)

    def __add__(self, o):
        r = self._npint(o, '__add__')
        return r if r is not NotImplemented else real_np.ndarray.__add__(self, o)

    def __mul__(self, o):
        r = self._npint(o, '__mul__')
        return r if r is not NotImplemented else real_np.ndarray.__mul__(self, o)

    def __floordiv__(self, o):
        r = self._npint(o, '__floordiv__')
        return r if r is not NotImplemented else real_np.ndarray.__floordiv__(self, o)

    def _iop(self, o, f):
        if isinstance(o, (Sym, Cplx)):
            self[...] = f(self, o)
            return self
        return NotImplemented

    def __iadd__(self, o):
        r = self._iop(o, lambda a, b: a + b)
        return r if r is not NotImplemented else real_np.ndarray.__iadd__(self, o)

    def __isub__(self, o):
        r = self._iop(o, lambda a, b: a - b)
        return r if r is not NotImplemented else real_np.ndarray.__isub__(self, o)

    def __imul__(self, o):
        r = self._iop(o, lambda a, b: a * b)
        return r if r is not NotImplemented else real_np.ndarray.__imul__(self, o)

    def __itruediv__(self, o):
        r = self._iop(o, lambda a, b: a / b)
        return r if r is not NotImplemented else real_np.ndarray.__itruediv__(self, o)

    def __iter__(self):
        if self.ndim == 0:
            raise TypeError('iteration over a 0-d array')
        for i in range(self.shape[0]):
            yield self[i]

    def tolist(self):
        return real_np.ndarray.tolist(real_np.ndarray.view(self, real_np.ndarray))

    def fill(self, v):
        self[...] = v


def _cmp(uf, a, b):
    if isinstance(b, SArr):
        b = real_np.ndarray.view(b, real_np.ndarray)
    r = uf(real_np.ndarray.view(a, real_np.ndarray), b, dtype=object)
    if isinstance(r, real_np.ndarray):
        r = r.view(SArr)
        r._ldhint = T('?')
    return r


def _cint(x, what):
    if isinstance(x, Sym):
        if core.ctx().extra.get('stop_at_alloc'):
            raise core.StopAtAlloc(what)
        return core.ctx().concretize(x.as_int(), what=what)
    return builtins.int(x)


def _site():
    """file:line of the innermost frame that belongs to /repo (for event keys)."""
    import sys
    f = sys._getframe(2)
    while f is not None:
        fn = f.f_code.co_filename
        if fn.startswith('/repo/') or '/abacusnbody/' in fn:
            return f'{fn.split("abacusnbody/")[-1]}:{f.f_code.co_name}:{f.f_lineno}'
        f = f.f_back
    return '?'


def _called_from_repo():
    """is the code indexing the array (the caller of __getitem__/__setitem__) part of /repo?
    Only there does an out-of-range index mean an unchecked memory access (numba semantics)."""
    import sys
    f = sys._getframe(1)
    while f is not None and f.f_code.co_filename.endswith(('symnb/arrays.py', 'symnb/npshim.py', 'symnb/core.py')):
        f = f.f_back
    return f is not None and '/abacusnbody/' in f.f_code.co_filename


def np_int_wrap(v, rdt, opname):
    """numpy's wrap-around of an integer result in the narrow dtype ``rdt``; reports (deciding query) when the mathematical
    result can actually leave the dtype's range under the path condition"""
    bits = rdt.itemsize * 8
    if bits >= 64 or rdt.kind not in 'iu':
        return v
    c = core.ctx()
    lo, hi = (0, (1 << bits) - 1) if rdt.kind == 'u' else (-(1 << (bits - 1)), (1 << (bits - 1)) - 1)
    if isinstance(v, Sym) and v.kind == 'i':
        out_of_range = z3.Or(v.e < lo, v.e > hi)
        if c.feasible(out_of_range):
            c.report('violation', f'{rdt.name} array arithmetic ({opname}) wraps around: the mathematical result can leave [{lo}, {hi}] at {_site()}',
                     key=f'intwrap:{rdt.name}:{opname}', cond=out_of_range, info=dict(site=_site()))
        m = v.e % (1 << bits)
        if rdt.kind == 'i':
            m = z3.If(m >= (1 << (bits - 1)), m - (1 << bits), m)
        return Sym(z3.simplify(m))
    if isinstance(v, (int, real_np.integer)) and not isinstance(v, bool):
        v = int(v) % (1 << bits)
        if rdt.kind == 'i' and v >= (1 << (bits - 1)):
            v -= 1 << bits
    return v


def logical_dtype_of(a):
    """logical numpy dtype of an object array that the engine knows about (SArr or a registered astropy Column buffer)"""
    if isinstance(a, SArr):
        return a.dtype.dt
    info = root_info(a, create=False)
    if info is not None and info.ld is not None:
        return info.ld.dt
    return None


def wrap_like(out, like):
    """object ndarray -> SArr carrying like's logical dtype (float unless known)."""
    r = out.view(SArr)
    r._ldhint = getattr(like, '_ldhint', None) if isinstance(like, SArr) else None
    return r


def as_sarr(a, dt=None):
    """Wrap/copy any array-like into an SArr (concrete numpy arrays become python numbers)."""
    if isinstance(a, SArr):
        return a
    a = real_np.asarray(a)
    if a.dtype == object:
        r = a.view(SArr)
        if dt is not None:
            r._ldhint = as_caster(dt)
        return r
    t = as_caster(dt if dt is not None else a.dtype)
    o = SArr(a.shape, t, fill=None)
    for idx in real_np.ndindex(*a.shape):
        real_np.ndarray.__setitem__(o, idx, cast_value(a[idx].item(), t.dt))
    return o


# ----------------------------------------------------------------------------------------
# merged (If-chain) access for designated symbolic indices, e.g. numba.get_thread_id()

def _merge_index(a, i):
    c = core.ctx()
    ids = c.extra.get('merge_ids')
    if not ids:
        return None
    if not isinstance(i, tuple):
        i = (i,)
    hit = [p for p, t in enumerate(i) if isinstance(t, Sym) and t.e.get_id() in ids]
    if not hit:
        return None
    if len(hit) > 1:
        raise ModelGap('more than one merged index')
    p = hit[0]
    if any(t is Ellipsis or t is None for t in i[:p]):
        raise ModelGap('merged index after ellipsis')
    return i, p


def _merged_read(a, i, p):
    c = core.ctx()
    n = a.shape[p]
    e = i[p].as_int()
    if c.feasible(z3.Or(e < 0, e >= n)):
        _oob(c, f'thread index out of bounds for axis {p} of length {n}', z3.Or(e < 0, e >= n),
             dict(site=_site(), axis=p, length=n, array=a._name()))
        c.assume(z3.And(e >= 0, e < n))
    logging, c.log_access = c.log_access, False
    try:
        rest = a._ci(i[:p] + (0,) + i[p + 1:], False)
        vals = [real_np.ndarray.__getitem__(a, rest[:p] + (t,) + rest[p + 1:]) for t in range(n)]
    finally:
        c.log_access = logging
    if c.log_access and c.tag is not None:
        for t in range(n):
            info, cells = cells_of(a, rest[:p] + (t,) + rest[p + 1:])
            for cell in cells.tolist():
                c.access_log.append((c.tag, info.name, cell, 'r', e == t))
    r = vals[-1]
    for t in range(n - 2, -1, -1):
        if isinstance(vals[t], real_np.ndarray):
            raise ModelGap('merged read of a sub-array')
        r = core.ite(e == t, vals[t], r)
    return r


def _merged_write(a, i, p, v):
    c = core.ctx()
    n = a.shape[p]
    e = i[p].as_int()
    if c.feasible(z3.Or(e < 0, e >= n)):
        _oob(c, f'thread index out of bounds for axis {p} of length {n}', z3.Or(e < 0, e >= n),
             dict(site=_site(), axis=p, length=n, array=a._name()))
        c.assume(z3.And(e >= 0, e < n))
    rest = a._ci(i[:p] + (0,) + i[p + 1:], True)
    for t in range(n):
        j = rest[:p] + (t,) + rest[p + 1:]
        old = real_np.ndarray.__getitem__(a, j)
        if isinstance(old, real_np.ndarray):
            raise ModelGap('merged write of a sub-array')
        real_np.ndarray.__setitem__(a, j, core.ite(e == t, v, old) if old is not UNINIT else v)
        if c.log_access and c.tag is not None:
            info, cells = cells_of(a, j)
            for cell in cells.tolist():
                c.access_log.append((c.tag, info.name, cell, 'w', e == t))
