"""IEEE-754 symbolic execution of the *thread-schedule prologues* of the real kernels.

The main engine models floats as reals, which cannot see a block boundary that is off by one because
``Nthread * (H / Nthread)`` rounds below ``H``.  This module executes the same real function bodies
(``dispatcher.py_func`` code objects, globals re-bound) with

  * array LENGTHS as symbolic 64-bit integers (z3 bit-vectors, bounded so that nothing wraps),
  * every float as a z3 ``Float64`` term with round-to-nearest-even arithmetic (``fp.div``, ``fp.mul``,
    ``fp.roundToIntegral`` for rint/floor, ``fp.to_sbv`` RTZ for ``astype(int64)`` / ``int()``),
  * ``np.linspace`` following numba's own implementation (start + i*step, last element = stop),
  * ``for i in range(lo, hi)`` with symbolic bounds NOT iterated but recorded as the half-open interval
    [lo, hi) of the enclosing ``numba.prange`` instance (the per-element work is the main engine's subject).

The obligation decided by the solver for every thread loop: the recorded blocks, in thread order, tile
[0, total) exactly -- first block starts at 0, each block starts where the previous one ends, no block
has negative length, the last one ends at ``total`` -- for EVERY array length within the bound.  A
satisfying assignment is a concrete length, which the check replays on the compiled kernel.
"""
import builtins
import time
import types
import numpy as real_np
import z3

F64 = z3.Float64()
RNE, RTZ, RTN, RTP = z3.RNE(), z3.RTZ(), z3.RTN(), z3.RTP()
BV = z3.BitVecSort(64)


class Inconclusive(Exception):
    pass


class ModelGap(Exception):
    pass


class _Abort(BaseException):
    pass


class _Done(BaseException):
    """all thread loops of interest have been executed: the rest of the function (result packing) is not needed"""


_CTX = None


def ctx():
    return _CTX


# ------------------------------------------------------------------------------------------------
# values

def _is_sym(x):
    return isinstance(x, (FI, FF, FB))


class FB:
    __slots__ = ('e',)

    def __init__(self, e):
        self.e = e

    def __bool__(self):
        return ctx().branch(self.e)

    def __and__(self, o):
        return FB(z3.And(self.e, _tob(o)))

    __rand__ = __and__

    def __or__(self, o):
        return FB(z3.Or(self.e, _tob(o)))

    __ror__ = __or__

    def __invert__(self):
        return FB(z3.Not(self.e))


def _tob(x):
    if isinstance(x, FB):
        return x.e
    return z3.BoolVal(bool(x))


def _fp(x):
    """anything numeric -> z3 Float64 term"""
    if isinstance(x, FF):
        return x.e
    if isinstance(x, FI):
        return z3.fpSignedToFP(RNE, x.e, F64)
    if isinstance(x, (bool, int, real_np.integer)):
        return z3.FPVal(float(int(x)), F64)
    if isinstance(x, (float, real_np.floating)):
        return z3.FPVal(float(x), F64)
    raise ModelGap(f'float of {type(x).__name__}')


def _bv(x):
    if isinstance(x, FI):
        return x.e
    if isinstance(x, (bool, int, real_np.integer)):
        return z3.BitVecVal(int(x), 64)
    raise ModelGap(f'int of {type(x).__name__}')


class FI:
    """symbolic int64 (two's complement bit-vector; inputs are bounded so that no operation wraps)"""
    __slots__ = ('e',)
    __array_ufunc__ = None

    def __init__(self, e):
        self.e = z3.simplify(e)

    def _conc(self):
        return self.e.as_signed_long() if z3.is_bv_value(self.e) else None

    def __index__(self):
        v = self._conc()
        if v is None:
            v = ctx().concretize(self)
        return v

    __int__ = __index__

    def _arith(self, o, f, rev=False):
        if isinstance(o, real_np.ndarray):
            return FArr([self._arith(x.item(), f, rev) for x in o])
        if isinstance(o, FArr):
            return FArr([self._arith(x, f, rev) for x in o.cells])
        if isinstance(o, (FF, float, real_np.floating)):
            a, b = (_fp(o), _fp(self)) if rev else (_fp(self), _fp(o))
            return FF(f[1](a, b))
        a, b = (_bv(o), self.e) if rev else (self.e, _bv(o))
        return FI(f[0](a, b))

    _ADD = (lambda a, b: a + b, lambda a, b: z3.fpAdd(RNE, a, b))
    _SUB = (lambda a, b: a - b, lambda a, b: z3.fpSub(RNE, a, b))
    _MUL = (lambda a, b: a * b, lambda a, b: z3.fpMul(RNE, a, b))

    def __add__(self, o): return self._arith(o, FI._ADD)
    def __radd__(self, o): return self._arith(o, FI._ADD, True)
    def __sub__(self, o): return self._arith(o, FI._SUB)
    def __rsub__(self, o): return self._arith(o, FI._SUB, True)
    def __mul__(self, o): return self._arith(o, FI._MUL)
    def __rmul__(self, o): return self._arith(o, FI._MUL, True)
    def __neg__(self): return FI(-self.e)

    def __truediv__(self, o):
        return FF(z3.fpDiv(RNE, _fp(self), _fp(o)))

    def __rtruediv__(self, o):
        return FF(z3.fpDiv(RNE, _fp(o), _fp(self)))

    def __floordiv__(self, o):
        if isinstance(o, (FF, float)):
            raise ModelGap('int // float')
        a, b = self.e, _bv(o)
        # python floor division (operands are non-negative within the bounds; guard the general case)
        q = a / b
        return FI(z3.If(z3.And((a % b) != 0, (a < 0) != (b < 0)), q - 1, q))

    def __rfloordiv__(self, o):
        return FI(_bv(o)).__floordiv__(self)

    def __mod__(self, o):
        return self - (self // o) * o

    def _cmp(self, o, fi, ff):
        if isinstance(o, (FF, float, real_np.floating)):
            return FB(ff(_fp(self), _fp(o)))
        return FB(fi(self.e, _bv(o)))

    def __lt__(self, o): return self._cmp(o, lambda a, b: a < b, z3.fpLT)
    def __le__(self, o): return self._cmp(o, lambda a, b: a <= b, z3.fpLEQ)
    def __gt__(self, o): return self._cmp(o, lambda a, b: a > b, z3.fpGT)
    def __ge__(self, o): return self._cmp(o, lambda a, b: a >= b, z3.fpGEQ)
    def __eq__(self, o): return self._cmp(o, lambda a, b: a == b, z3.fpEQ)
    def __ne__(self, o): return self._cmp(o, lambda a, b: a != b, lambda a, b: z3.Not(z3.fpEQ(a, b)))
    __hash__ = None


class FF:
    """symbolic IEEE double"""
    __slots__ = ('e',)
    __array_ufunc__ = None

    def __init__(self, e):
        self.e = z3.simplify(e)

    def _arith(self, o, f, rev=False):
        if isinstance(o, real_np.ndarray):
            return FArr([self._arith(x.item(), f, rev) for x in o])
        if isinstance(o, FArr):
            return FArr([self._arith(x, f, rev) for x in o.cells])
        a, b = (_fp(o), self.e) if rev else (self.e, _fp(o))
        return FF(f(RNE, a, b))

    def __add__(self, o): return self._arith(o, z3.fpAdd)
    def __radd__(self, o): return self._arith(o, z3.fpAdd, True)
    def __sub__(self, o): return self._arith(o, z3.fpSub)
    def __rsub__(self, o): return self._arith(o, z3.fpSub, True)
    def __mul__(self, o): return self._arith(o, z3.fpMul)
    def __rmul__(self, o): return self._arith(o, z3.fpMul, True)
    def __truediv__(self, o): return self._arith(o, z3.fpDiv)
    def __rtruediv__(self, o): return self._arith(o, z3.fpDiv, True)
    def __neg__(self): return FF(z3.fpNeg(self.e))

    def _cmp(self, o, f):
        return FB(f(self.e, _fp(o)))

    def __lt__(self, o): return self._cmp(o, z3.fpLT)
    def __le__(self, o): return self._cmp(o, z3.fpLEQ)
    def __gt__(self, o): return self._cmp(o, z3.fpGT)
    def __ge__(self, o): return self._cmp(o, z3.fpGEQ)
    def __eq__(self, o): return self._cmp(o, z3.fpEQ)
    def __ne__(self, o): return FB(z3.Not(z3.fpEQ(self.e, _fp(o))))
    __hash__ = None

    def __int__(self):
        raise ModelGap('int() of a symbolic float outside the shimmed builtins')

    def to_int(self):
        return FI(z3.fpToSBV(RTZ, self.e, BV))

    def rounded(self, mode):
        return FF(z3.fpRoundToIntegral(mode, self.e))


class FArr:
    """1-D array of cells (python numbers, FI, FF)"""
    __array_ufunc__ = None

    def __init__(self, cells, dtype=None):
        self.cells = list(cells)
        self.dtype = real_np.dtype(dtype) if dtype is not None else real_np.dtype('f8')

    def __len__(self):
        return len(self.cells)

    @property
    def shape(self):
        return (len(self.cells),)

    def _idx(self, i):
        if isinstance(i, FI):
            i = int(i)
        return i

    def __getitem__(self, i):
        i = self._idx(i)
        if isinstance(i, slice):
            return FArr(self.cells[i], self.dtype)
        if not -len(self.cells) <= i < len(self.cells):
            c = ctx()
            c.events.append(dict(kind='oob', what=f'schedule array index {i} outside length {len(self.cells)}'))
            raise _Abort()
        return self.cells[i]

    def __setitem__(self, i, v):
        i = self._idx(i)
        if isinstance(i, slice):
            vs = v.cells if isinstance(v, FArr) else list(v) if isinstance(v, (list, tuple, real_np.ndarray)) else [v] * len(self.cells[i])
            self.cells[i] = vs
        else:
            self.cells[i] = v

    def _map(self, f):
        return FArr([f(x) for x in self.cells], self.dtype)

    def _zip(self, o, f):
        if isinstance(o, FArr):
            o = o.cells
        elif isinstance(o, real_np.ndarray):
            o = [x.item() for x in o]
        else:
            o = [o] * len(self.cells)
        return FArr([f(a, b) for a, b in zip(self.cells, o)], self.dtype)

    def __add__(self, o): return self._zip(o, lambda a, b: a + b)
    __radd__ = __add__
    def __sub__(self, o): return self._zip(o, lambda a, b: a - b)
    def __mul__(self, o): return self._zip(o, lambda a, b: a * b)
    __rmul__ = __mul__
    def __truediv__(self, o): return self._zip(o, lambda a, b: _div(a, b))

    def astype(self, dt, **k):
        dt = real_np.dtype(dt)
        if dt.kind in 'iu':
            return FArr([x.to_int() if isinstance(x, FF) else (x if isinstance(x, FI) else int(x)) for x in self.cells], dt)
        return FArr([FF(_fp(x)) if isinstance(x, FI) else x for x in self.cells], dt)

    def sum(self):
        t = 0
        for x in self.cells:
            t = t + x
        return t


def _div(a, b):
    if _is_sym(a) or _is_sym(b):
        return FF(z3.fpDiv(RNE, _fp(a), _fp(b)))
    return a / b


class Placeholder:
    """an array argument whose length is symbolic; its elements are never touched by a schedule prologue"""

    def __init__(self, n, dtype='f4', trailing=()):
        self.n = n
        self.dtype = real_np.dtype(dtype)
        self.trailing = tuple(trailing)

    @property
    def shape(self):
        return (self.n,) + self.trailing

    @property
    def ndim(self):
        return 1 + len(self.trailing)

    def __getitem__(self, i):
        raise ModelGap('element access to a symbolic-length array inside a schedule prologue')

    __setitem__ = __getitem__


# ------------------------------------------------------------------------------------------------
# shims

def _sint(x=0, *a):
    if isinstance(x, FF):
        return x.to_int()
    if isinstance(x, FI):
        return x
    return builtins.int(x, *a)


def _sfloat(x=0.0):
    if isinstance(x, FI):
        return FF(_fp(x))
    if isinstance(x, FF):
        return x
    return builtins.float(x)


def _slen(x):
    if isinstance(x, Placeholder):
        return x.n
    return builtins.len(x)


def _sminmax(gt):
    def f(*a):
        if len(a) == 1:
            a = tuple(a[0])
        if not any(_is_sym(x) for x in a):
            return (builtins.max if gt else builtins.min)(*a)
        r = a[0]
        for x in a[1:]:
            if isinstance(r, FF) or isinstance(x, FF) or isinstance(r, float) or isinstance(x, float):
                rr, xx = _fp(r), _fp(x)
                r = FF(z3.If(z3.fpGT(xx, rr) if gt else z3.fpLT(xx, rr), xx, rr))
            else:
                rr, xx = _bv(r), _bv(x)
                r = FI(z3.If(xx > rr if gt else xx < rr, xx, rr))
        return r
    return f


def _srange(*a):
    if not any(_is_sym(x) for x in a):
        return builtins.range(*[builtins.int(x) for x in a])
    if len(a) == 1:
        lo, hi = 0, a[0]
    elif len(a) == 2:
        lo, hi = a
    else:
        raise ModelGap('range with a step and symbolic bounds')
    c = ctx()
    c.intervals.append(dict(loop=c.loop, tid=c.tid, lo=lo, hi=hi))
    return builtins.range(0)


class _NumbaShim:
    class config:
        NUMBA_NUM_THREADS = 16

    def __init__(self):
        self.typed = __import__('numba').typed
        self.types = __import__('numba').types

    def set_num_threads(self, n):
        pass

    def get_num_threads(self):
        return 16

    def prange(self, *a):
        c = ctx()
        c.loop += 1
        lp = c.loop
        n = [builtins.int(x) for x in a]

        def gen():
            for t in builtins.range(*n):
                c.loop, c.tid = lp, t
                yield t
            c.tid = None
            if c.need_loops and lp >= c.need_loops:
                raise _Done()
        return gen()

    def __getattr__(self, k):
        raise ModelGap(f'numba.{k} in a schedule prologue')


class _NpShim:
    def __init__(self):
        for nm in ('int8', 'int16', 'int32', 'int64', 'uint8', 'uint16', 'uint32', 'uint64', 'float32', 'float64', 'bool_', 'pi', 'nan', 'inf', 'newaxis'):
            setattr(self, nm, getattr(real_np, nm))

    @staticmethod
    def _shape(shape):
        return tuple(shape) if isinstance(shape, (tuple, list)) else (shape,)

    def _alloc(self, f, shape, dtype=None, **k):
        shp = self._shape(shape)
        if any(_is_sym(s) for s in shp):
            if any(_is_sym(s) for s in shp[1:]):
                raise ModelGap('symbolic trailing dimension')
            return Placeholder(shp[0], dtype or 'f8', shp[1:])
        return f(tuple(builtins.int(s) for s in shp), dtype=dtype)

    def empty(self, shape, dtype=None, **k): return self._alloc(real_np.zeros, shape, dtype)
    def zeros(self, shape, dtype=None, **k): return self._alloc(real_np.zeros, shape, dtype)
    def ones(self, shape, dtype=None, **k): return self._alloc(real_np.ones, shape, dtype)

    def empty_like(self, a, dtype=None):
        if isinstance(a, Placeholder):
            return Placeholder(a.n, dtype or a.dtype, a.trailing)
        return real_np.zeros_like(a, dtype=dtype)

    zeros_like = empty_like

    def linspace(self, start, stop, num=50):
        """numba's np.linspace (numba/np/arrayobj.py: numpy_linspace): start*1.0, stop*1.0, step = (stop-start)/div,
        arr[i] = start + i*step, arr[-1] = stop"""
        if not (_is_sym(start) or _is_sym(stop)):
            return real_np.linspace(start, stop, builtins.int(num))
        num = builtins.int(num)
        start, stop = FF(_fp(start)) * 1.0, FF(_fp(stop)) * 1.0
        cells = [None] * num
        if num == 0:
            return FArr([])
        div = num - 1
        if div > 0:
            delta = stop - start
            step = delta / div
            for i in builtins.range(num):
                cells[i] = start + (i * step)
        else:
            cells[0] = start
        if num > 1:
            cells[-1] = stop
        return FArr(cells, 'f8')

    def arange(self, *a, dtype=None):
        if any(_is_sym(x) for x in a):
            raise ModelGap('arange of symbolic length')
        return real_np.arange(*a, dtype=dtype)

    def _round(self, x, mode, conc):
        if isinstance(x, FArr):
            return x._map(lambda v: self._round(v, mode, conc))
        if isinstance(x, FF):
            return x.rounded(mode)
        if isinstance(x, FI):
            return FF(_fp(x))
        return conc(x)

    def rint(self, x): return self._round(x, RNE, real_np.rint)
    def floor(self, x): return self._round(x, RTN, real_np.floor)
    def ceil(self, x): return self._round(x, RTP, real_np.ceil)
    def trunc(self, x): return self._round(x, RTZ, real_np.trunc)
    round = rint
    round_ = rint

    def divide(self, a, b):
        return _div(a, b)

    def _mm(self, a, b, gt):
        f = _sminmax(gt)
        if isinstance(a, (FArr, real_np.ndarray)) or isinstance(b, (FArr, real_np.ndarray)):
            A = a.cells if isinstance(a, FArr) else [x.item() for x in a] if isinstance(a, real_np.ndarray) else None
            B = b.cells if isinstance(b, FArr) else [x.item() for x in b] if isinstance(b, real_np.ndarray) else None
            n = len(A if A is not None else B)
            A = A if A is not None else [a] * n
            B = B if B is not None else [b] * n
            return FArr([f(x, y) for x, y in zip(A, B)], 'i8')
        return f(a, b)

    def minimum(self, a, b): return self._mm(a, b, False)
    def maximum(self, a, b): return self._mm(a, b, True)

    def cumsum(self, a, **k):
        return real_np.cumsum(a, **k)

    def sum(self, a, **k):
        return a.sum() if isinstance(a, FArr) else real_np.sum(a, **k)

    def ascontiguousarray(self, a):
        return a if isinstance(a, (FArr, Placeholder)) else real_np.ascontiguousarray(a)

    def __getattr__(self, k):
        raise ModelGap(f'np.{k} in a schedule prologue')


def rebound(pyfunc):
    """the real function body with np / numba / int / float / len / range / min / max re-bound"""
    f = getattr(pyfunc, 'py_func', pyfunc)
    G = dict(f.__globals__)
    b = dict(vars(builtins))
    b.update(int=_sint, float=_sfloat, len=_slen, range=_srange, max=_sminmax(True), min=_sminmax(False))
    G['__builtins__'] = b
    G['np'] = _NpShim()
    G['numba'] = _NumbaShim()
    g = types.FunctionType(f.__code__, G, f.__name__, f.__defaults__, f.__closure__)
    g.__kwdefaults__ = f.__kwdefaults__
    return g


# ------------------------------------------------------------------------------------------------
# explorer

class Ctx:
    def __init__(self, prefix, timeout_ms):
        self.prefix = prefix
        self.pos = 0
        self.decisions = []
        self.pc = []
        self.intervals = []
        self.events = []
        self.loop = 0
        self.tid = None
        self.timeout_ms = timeout_ms
        self.queries = 0
        self.solver_s = 0.0
        self.pending = []
        self.inputs = {}
        self.need_loops = 0

    def sym_len(self, name, lo, hi):
        v = z3.BitVec(name, 64)
        self.inputs[name] = v
        self.pc.append(z3.And(v >= lo, v <= hi))
        return FI(v)

    def check(self, extra, timeout_ms=None):
        """eager bit-blasting (fpa2bv + SAT) first -- an order of magnitude faster than z3's default lazy FP handling on these
        formulas -- and the default solver as the second opinion when the tactic cannot decide"""
        t = time.time()
        tm = timeout_ms or self.timeout_ms
        r, m = 'unknown', None
        try:
            s = z3.TryFor(z3.Then('simplify', 'fpa2bv', 'simplify', 'bit-blast', 'sat'), tm).solver()
            s.add(*self.pc)
            s.add(*extra)
            r = str(s.check())
            m = s.model() if r == 'sat' else None
        except z3.Z3Exception:
            r = 'unknown'
        if r == 'unknown':
            s = z3.Solver()
            s.set('timeout', tm)
            s.add(*self.pc)
            s.add(*extra)
            r = str(s.check())
            m = s.model() if r == 'sat' else None
        self.queries += 1
        self.solver_s += time.time() - t
        return r, m

    def branch(self, cond):
        cond = z3.simplify(cond)
        if z3.is_true(cond):
            return True
        if z3.is_false(cond):
            return False
        if self.pos < len(self.prefix):
            d = self.prefix[self.pos]
        else:
            rt, _ = self.check([cond])
            rf, _ = self.check([z3.Not(cond)])
            if 'unknown' in (rt, rf):
                raise Inconclusive(f'branch feasibility unknown: {cond.sexpr()[:200]}')
            if rt == 'sat' and rf == 'sat':
                d = True
                self.pending.append(self.decisions + [False])
            elif rt == 'sat':
                d = True
            elif rf == 'sat':
                d = False
            else:
                raise _Abort()
        self.pos += 1
        self.decisions.append(d)
        self.pc.append(cond if d else z3.Not(cond))
        return d

    def concretize(self, fi):
        """fork over the values of a symbolic integer that the code needs as a python int (array sizes)"""
        r, m = self.check([])
        if r != 'sat':
            raise _Abort() if r == 'unsat' else Inconclusive('concretize')
        # enumerate through branching on equality with the model value (bounded by the caller's ranges)
        v = m.eval(fi.e, model_completion=True).as_signed_long()
        if self.branch(fi.e == v):
            return v
        return self.concretize(fi)


def explore(body, timeout_ms=120000, max_paths=400):
    """body(ctx) runs the rebound function; returns list of per-path dicts(pc, intervals, events, ret, exc)"""
    global _CTX
    work = [[]]
    out = []
    stats = dict(paths=0, queries=0, solver_s=0.0)
    while work:
        prefix = work.pop()
        c = Ctx(prefix, timeout_ms)
        _CTX = c
        exc = None
        ret = None
        try:
            ret = body(c)
        except _Abort:
            exc = 'abort'
        except _Done:
            exc = None
        except Inconclusive as e:
            exc = f'inconclusive: {e}'
        except ModelGap as e:
            exc = f'modelgap: {e}'
        except Exception as e:          # the code past the thread loops (result packing) may not run on placeholders
            exc = f'raised {type(e).__name__}: {str(e)[:200]}'
        finally:
            _CTX = None
        work.extend(c.pending)
        stats['paths'] += 1
        stats['queries'] += c.queries
        stats['solver_s'] += c.solver_s
        out.append(dict(ctx=c, ret=ret, exc=exc))
        if stats['paths'] > max_paths:
            raise Inconclusive('path budget exhausted')
    return out, stats


def tiling_obligations(c, loop, total):
    """z3 conditions (name, formula) saying that the blocks recorded for prange instance ``loop`` tile [0,total)"""
    iv = [i for i in c.intervals if i['loop'] == loop and i['tid'] is not None]
    obs = []
    if not iv:
        obs.append(('some thread block covers the table', _bv(total) == 0))
        return obs, iv
    obs.append(('first block starts at 0', _bv(iv[0]['lo']) == 0))
    for a, b in zip(iv[:-1], iv[1:]):
        obs.append((f'block of thread {b["tid"]} starts where the block of thread {a["tid"]} ends', _bv(a['hi']) == _bv(b['lo'])))
    for a in iv:
        obs.append((f'block of thread {a["tid"]} has non-negative length', _bv(a['lo']) <= _bv(a['hi'])))
    obs.append(('last block ends at the table length', _bv(iv[-1]['hi']) == _bv(total)))
    return obs, iv
